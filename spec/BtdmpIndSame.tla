---------------------------- MODULE BtdmpIndSame ----------------------------
(* The operators of BtdmpInd.tla (proved by Apalache at the real constants) ARE the length abstraction of the   *)
(* Btdmp.tla operators that BtdmpTrace / System bind to the code: compared by TLC for ALL concrete port states  *)
(* (every queue content, phase, period, flag combination, consistent or not) and all skip amounts at scaled     *)
(* constants.                                                                                                    *)
EXTENDS Btdmp
I == INSTANCE BtdmpInd WITH Cap <- Cap, TW <- TW, KMax <- K, vs <- [n |-> 0, tm |-> 0, pd |-> 0, en |-> 0, em |-> 1, fu |-> 0], vk <- 0
VARIABLE vS
RECURSIVE SeqsUpTo(_)
SeqsUpTo(n) == IF n = 0 THEN {<<>>} ELSE LET r == SeqsUpTo(n - 1) IN r \cup {Append(x, v) : x \in {y \in r : Len(y) = n - 1}, v \in Vals}
InitSame == Init /\ vS \in [q : SeqsUpTo(Cap), tm : 0 .. TW - 1, pd : 0 .. TW - 1, en : 0 .. 1, em : 0 .. 1, fu : 0 .. 1, cc : {0}]
NextSame == UNCHANGED <<vars, vS>>
AbsS(x) == [n |-> Len(x.q), tm |-> x.tm, pd |-> x.pd, en |-> x.en, em |-> x.em, fu |-> x.fu]
AbsR(r) == [s |-> AbsS(r.s), fr |-> Len(Frames(r.ev)), irq |-> Irqs(r.ev), out |-> r.out]
\* equal outcomes; equal states and callback counts when the call succeeded (after a tripped assertion the process is gone)
SameRes(c, a) == c.out = a.out /\ (c.out = "ok" => AbsR(c) = a)
Same ==
    /\ SameRes(TickOp(vS), I!TickOp(AbsS(vS)))
    /\ Horizon(vS) = I!Horizon(AbsS(vS))
    /\ \A v \in Vals : SameRes(SendOp(vS, v), I!SendOp(AbsS(vS)))
    /\ SameRes(FlushOp(vS, 1), I!FlushOp(AbsS(vS)))
    /\ \A k \in 0 .. K : SameRes(SkipOp(vS, k), I!SkipOp(AbsS(vS), k))
    /\ AbsS(ResetState) = [n |-> 0, tm |-> 0, pd |-> ResetPeriod, en |-> 0, em |-> 1, fu |-> 0]
=============================================================================
