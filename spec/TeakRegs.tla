------------------------------- MODULE TeakRegs -------------------------------
(* The register state of the core as one record (field names as in register.h, see TeakRegLayout for   *)
(* the complete list) and the 19 architectural status/configuration words as bit-field VIEWS of it      *)
(* (register.h: PseudoRegister<ProxySlot<...>...>), written out by hand as tables of slots.             *)
(* As-is layer: PGet / PSet.  Property layer (C20): see RegsTheorems.tla.                               *)
EXTENDS TeakBits, TeakRegLayout

\* slot kinds: "rw" plain field, "ro" read-only field, "dbl" one bit standing for two flags (OR on read,
\* both written), "acce" low 4 bits of an accumulator extension (sign-extended on write), "lp" the
\* loop flag (read lp; writing 1 clears lp and bcn)
S(k, f, i, pos, len) == [k |-> k, f |-> f, i |-> i, pos |-> pos, len |-> len]
RW(f, pos, len)      == S("rw", f, 0, pos, len)
RWA(f, i, pos, len)  == S("rw", f, i, pos, len)       \* i: 1-based index into an array field
RO(f, pos, len)      == S("ro", f, 0, pos, len)
ROA(f, i, pos, len)  == S("ro", f, i, pos, len)

ArWord(x) == <<RWA("arstep", 2 * x + 2, 0, 3), RWA("aroffset", 2 * x + 2, 3, 2), RWA("arstep", 2 * x + 1, 5, 3),
               RWA("aroffset", 2 * x + 1, 8, 2), RWA("arrn", 2 * x + 2, 10, 3), RWA("arrn", 2 * x + 1, 13, 3)>>
ArpWord(x) == <<RWA("arpstepi", x + 1, 0, 3), RWA("arpoffseti", x + 1, 3, 2), RWA("arpstepj", x + 1, 5, 3),
                RWA("arpoffsetj", x + 1, 8, 2), RWA("arprni", x + 1, 10, 2), RWA("arprnj", x + 1, 13, 2)>>

Words == [
  cfgi |-> <<RW("stepi", 0, 7), RW("modi", 7, 9)>>,
  cfgj |-> <<RW("stepj", 0, 7), RW("modj", 7, 9)>>,
  stt0 |-> <<RW("flm", 0, 1), RW("fvl", 1, 1), RW("fe", 2, 1), RW("fc0", 3, 1), RW("fv", 4, 1), RW("fn", 5, 1),
             RW("fm", 6, 1), RW("fz", 7, 1), RW("fc1", 11, 1)>>,
  stt1 |-> <<RW("fr", 4, 1), ROA("iu", 1, 10, 1), ROA("iu", 2, 11, 1), RWA("pe", 1, 14, 1), RWA("pe", 2, 15, 1)>>,
  stt2 |-> <<ROA("ip", 1, 0, 1), ROA("ip", 2, 1, 1), ROA("ip", 3, 2, 1), RO("ipv", 3, 1), RW("pcmhi", 6, 2),
             RO("bcn", 12, 3), S("lp", "lp", 0, 15, 1)>>,
  mod0 |-> <<RW("sat", 0, 1), RW("sata", 1, 1), RO("mod0c", 2, 3), RW("hwm", 5, 2), RW("s", 7, 1),
             RWA("ou", 1, 8, 1), RWA("ou", 2, 9, 1), RWA("ps", 1, 10, 2), RWA("ps", 2, 13, 2)>>,
  mod1 |-> <<RW("page", 0, 8), RW("stp16", 12, 1), RW("cmd", 13, 1), RW("epi", 14, 1), RW("epj", 15, 1)>>,
  mod2 |-> [k \in 1 .. 16 |-> IF k <= 8 THEN RWA("m", k, k - 1, 1) ELSE RWA("br", k - 8, k - 1, 1)],
  mod3 |-> <<RW("nimc", 0, 1), RWA("ic", 1, 1, 1), RWA("ic", 2, 2, 1), RWA("ic", 3, 3, 1), RWA("ou", 3, 4, 1),
             RWA("ou", 4, 5, 1), RWA("ou", 5, 6, 1), RW("ie", 7, 1), RWA("im", 1, 8, 1), RWA("im", 2, 9, 1),
             RWA("im", 3, 10, 1), RW("imv", 11, 1), RW("ccnta", 13, 1), RW("cpc", 14, 1), RW("crep", 15, 1)>>,
  st0  |-> <<RW("sat", 0, 1), RW("ie", 1, 1), RWA("im", 1, 2, 1), RWA("im", 2, 3, 1), RW("fr", 4, 1),
             S("dbl", "flm", 0, 5, 1), RW("fe", 6, 1), RW("fc0", 7, 1), RW("fv", 8, 1), RW("fn", 9, 1),
             RW("fm", 10, 1), RW("fz", 11, 1), S("acce", "a0", 0, 12, 4)>>,
  st1  |-> <<RW("page", 0, 8), RWA("ps", 1, 10, 2), S("acce", "a1", 0, 12, 4)>>,
  st2  |-> <<RWA("m", 1, 0, 1), RWA("m", 2, 1, 1), RWA("m", 3, 2, 1), RWA("m", 4, 3, 1), RWA("m", 5, 4, 1),
             RWA("m", 6, 5, 1), RWA("im", 3, 6, 1), RW("s", 7, 1), RWA("ou", 1, 8, 1), RWA("ou", 2, 9, 1),
             ROA("iu", 1, 10, 1), ROA("iu", 2, 11, 1), ROA("ip", 3, 13, 1), ROA("ip", 1, 14, 1), ROA("ip", 2, 15, 1)>>,
  icr  |-> <<RW("nimc", 0, 1), RWA("ic", 1, 1, 1), RWA("ic", 2, 2, 1), RWA("ic", 3, 3, 1), S("lp", "lp", 0, 4, 1),
             RO("bcn", 5, 3)>>,
  ar0  |-> ArWord(0), ar1 |-> ArWord(1),
  arp0 |-> ArpWord(0), arp1 |-> ArpWord(1), arp2 |-> ArpWord(2), arp3 |-> ArpWord(3) ]

WordNames == DOMAIN Words

SlotGet(r, s) ==
    CASE s.k \in {"rw", "ro"} -> IF s.i = 0 THEN r[s.f] ELSE r[s.f][s.i]
      [] s.k = "dbl"  -> IF r.flm = 1 \/ r.fvl = 1 THEN 1 ELSE 0      \* flm | fvl
      [] s.k = "acce" -> r[s.f][3] % 16
      [] s.k = "lp"   -> r.lp

\* PseudoRegister::Get: OR of the slots shifted into place (fields are within their widths in every
\* well-formed state, so OR is +)
RECURSIVE PGetFrom(_, _, _)
PGetFrom(r, slots, j) == IF j > Len(slots) THEN 0
                         ELSE SlotGet(r, slots[j]) * (2 ^ slots[j].pos) + PGetFrom(r, slots, j + 1)
PGet(r, word) == PGetFrom(r, Words[word], 1)

SlotSet(r, s, bits) ==
    CASE s.k = "rw"   -> IF s.i = 0 THEN [r EXCEPT ![s.f] = bits] ELSE [r EXCEPT ![s.f][s.i] = bits]
      [] s.k = "ro"   -> r
      [] s.k = "dbl"  -> [r EXCEPT !.flm = bits, !.fvl = bits]
      [] s.k = "acce" -> [r EXCEPT ![s.f][3] = IF bits >= 8 THEN bits + (EB - 16) ELSE bits]   \* SignExtend<4>
      [] s.k = "lp"   -> IF bits # 0 THEN [r EXCEPT !.lp = 0, !.bcn = 0] ELSE r

\* PseudoRegister::Set: every slot, in declaration order, receives its bits of the written value
RECURSIVE PSetFrom(_, _, _, _)
PSetFrom(r, slots, j, v) == IF j > Len(slots) THEN r
                            ELSE PSetFrom(SlotSet(r, slots[j], (v \div (2 ^ slots[j].pos)) % (2 ^ slots[j].len)),
                                          slots, j + 1, v)
PSet(r, word, v) == PSetFrom(r, Words[word], 1, v)

\* bits of a word that a write changes and a read returns (everything but read-only and reserved bits)
RECURSIVE MaskFrom(_, _, _)
MaskFrom(slots, j, kinds) == IF j > Len(slots) THEN 0
                             ELSE (IF slots[j].k \in kinds THEN (2 ^ slots[j].len - 1) * (2 ^ slots[j].pos) ELSE 0)
                                  + MaskFrom(slots, j + 1, kinds)
\* RegisterState{} as the constructor / Reset() leaves it (register.h member initialisers)
ResetRegs ==
    LET z == Unpack([i \in 1 .. NREG |-> 0]) IN
    [z EXCEPT !.cpc = 1, !.crep = 1, !.ccnta = 1, !.sata = 1, !.cmd = 1, !.mod0c = 1,
              !.arstep = <<1, 4, 5, 3>>, !.arpstepi = <<1, 4, 5, 3>>, !.arpstepj = <<1, 4, 5, 3>>,
              !.aroffset = <<0, 1, 2, 0>>, !.arpoffseti = <<0, 1, 2, 0>>, !.arpoffsetj = <<0, 1, 2, 0>>,
              !.arrn = <<0, 4, 2, 6>>, !.arprni = <<0, 1, 2, 3>>, !.arprnj = <<0, 1, 2, 3>>]

WritableMask(word) == MaskFrom(Words[word], 1, {"rw", "dbl", "acce"})
DefinedMask(word)  == MaskFrom(Words[word], 1, {"rw", "ro", "dbl", "acce", "lp"})
=============================================================================
