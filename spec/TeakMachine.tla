------------------------------ MODULE TeakMachine ------------------------------
(* Machine state threaded through one instruction, and the helpers every handler of interpreter.h uses: *)
(* memory access with the MIU's address formation, accumulator access, the 16-bit register bus          *)
(* (RegToBus16 / RegFromBus16), condition codes, stack helpers, context store/restore.  As-is layer.    *)
(*                                                                                                      *)
(* s = [ r    |-> register record (TeakRegs),                                                           *)
(*       mem  |-> function: physical word address -> value (sparse: only cells known so far),           *)
(*       io   |-> function: MMIO offset -> value a read returns during this instruction,                 *)
(*       acc  |-> sequence of <<physical word address, is_write, value>>: every access, in order,        *)
(*       out  |-> "ok" | "unimpl" | "assert" | "oob"   (first non-ok outcome wins),                      *)
(*       idle |-> BOOLEAN, lat |-> <<p0,p1,p2,pv>> interrupt latches, vaddr, vctx,                       *)
(*       miu  |-> MemoryInterfaceUnit: [base, z, pm, xp, yp, xs, ys] MMIO window base, z page, page mode,   *)
(*                x/y pages, x_size / y_size (two entries each, only x_size[0] takes part in addressing) ]  *)
(* Physical word addresses: program word p = p; data word a = 0x20000 + 0x10000*z + a; an access inside  *)
(* the MMIO window is the pseudo-address 0x1000000 + offset (it never touches memory).                      *)
EXTENDS TeakAddr, TeakAlu, TeakOperand, TLC

MemWords == 262144                         \* 0x80000 bytes
DataBase == 131072
MmioBase == 16777216                       \* pseudo-addresses of MMIO window accesses

Fail(s, o) == IF s.out = "ok" THEN [s EXCEPT !.out = o] ELSE s
SetR(s, r2) == [s EXCEPT !.r = r2]

\* s.mem: program/data cells known so far (physical word address -> value, default 0);
\* s.io:  what a read of each MMIO register returns during this instruction (offset -> value)
InIo(ph) == ph >= MmioBase /\ ph < MmioBase + 2048
MemVal(s, ph) == IF InIo(ph) THEN (IF (ph - MmioBase) \in DOMAIN s.io THEN s.io[ph - MmioBase] ELSE 0)
                 ELSE IF ph \in DOMAIN s.mem THEN s.mem[ph] ELSE 0
\* the MIU registers (MMIO 0x10E.. 0x11E) act on the very next access, in particular on the return-address push of an
\* interrupt entered in the same cycle: their effect on s.miu is part of the write itself
IsMiuOff(off) == off \in {270, 272, 274, 276, 278, 282, 286}
MiuApply(m, off, v) ==
    CASE off = 270 -> [m EXCEPT !.xp = v] [] off = 272 -> [m EXCEPT !.yp = v] [] off = 274 -> [m EXCEPT !.z = v]
      [] off = 276 -> [m EXCEPT !.xs[1] = v % 64, !.ys[1] = (v \div 256) % 64]
      [] off = 278 -> [m EXCEPT !.xs[2] = v % 64, !.ys[2] = (v \div 256) % 64]
      [] off = 282 -> [m EXCEPT !.pm = (v \div 64) % 2]
      [] off = 286 -> [m EXCEPT !.base = v]
RawRead(s, ph)  == IF ph < MemWords \/ InIo(ph)
                   THEN [s EXCEPT !.acc = Append(@, <<ph, 0, MemVal(s, ph)>>)]
                   ELSE Fail([s EXCEPT !.acc = Append(@, <<ph, 0, 0>>)], "oob")
RawWrite(s, ph, v) == IF ph < MemWords
                      THEN [s EXCEPT !.acc = Append(@, <<ph, 1, v>>), !.mem = (ph :> v) @@ @]
                      ELSE IF InIo(ph)
                      THEN [s EXCEPT !.acc = Append(@, <<ph, 1, v>>), !.io = ((ph - MmioBase) :> v) @@ @,
                                     !.miu = IF s.miu.live /\ IsMiuOff(ph - MmioBase) THEN MiuApply(@, ph - MmioBase, v) ELSE @]
                      ELSE Fail([s EXCEPT !.acc = Append(@, <<ph, 1, v>>)], "oob")

\* MemoryInterfaceUnit as constructed / Reset (memory_interface.h member initialisers)
\* live: TRUE when the MMIO window is backed by the real register file (System.tla: a full Teakra), FALSE when the
\* MMIO cells are inert logged storage (the single-instruction rig of isa_rec: the MIU registers never change there)
MiuReset == [base |-> 32768, z |-> 0, pm |-> 0, xp |-> 0, yp |-> 0, xs |-> <<32, 32>>, ys |-> <<30, 30>>, live |-> FALSE]
MiuLive  == [MiuReset EXCEPT !.live = TRUE]
InMMIO(s, a)   == a >= s.miu.base /\ a < s.miu.base + 2048          \* the sum is formed in int: no 16-bit wrap
\* ConvertDataAddress: page mode 0 -> z page; page mode 1 -> x page up to AND INCLUDING x_size[0] * 0x400, y page above
DataPage(s, a) == IF s.miu.pm = 0 THEN s.miu.z ELSE IF a <= s.miu.xs[1] * 1024 THEN s.miu.xp ELSE s.miu.yp
DataPhys(s, a) == IF InMMIO(s, a) THEN MmioBase + ((a - s.miu.base) % 2048) ELSE DataBase + a + 65536 * DataPage(s, a)

\* MemoryInterface::DataRead / DataWrite (no bypass).  An MMIO-window access with z_page # 0 asserts (ToMMIO, in
\* either page mode); a memory access whose selected page is not 0 or 1 asserts (ConvertDataAddress).
DAsserts(s, a) == IF InMMIO(s, a) THEN s.miu.z # 0 ELSE DataPage(s, a) >= 2
DVal(s, a)  == MemVal(s, DataPhys(s, a % B))
DRead(s, a) == IF DAsserts(s, a % B) THEN Fail(s, "assert") ELSE RawRead(s, DataPhys(s, a % B))
DWrite(s, a, v) == IF DAsserts(s, a % B) THEN Fail(s, "assert") ELSE RawWrite(s, DataPhys(s, a % B), v)
PVal(s, p)  == MemVal(s, p)
PRead(s, p) == RawRead(s, p)
PWrite(s, p, v) == RawWrite(s, p, v)

-----------------------------------------------------------------------------
(* accumulators                                                                                         *)
AccBase == [a0 |-> "a0", a0l |-> "a0", a0h |-> "a0", a0e |-> "a0", a1 |-> "a1", a1l |-> "a1", a1h |-> "a1", a1e |-> "a1",
            b0 |-> "b0", b0l |-> "b0", b0h |-> "b0", b0e |-> "b0", b1 |-> "b1", b1l |-> "b1", b1h |-> "b1", b1e |-> "b1"]
IsAccName(n) == n \in DOMAIN AccBase
AccPart(n) == IF n \in {"a0","a1","b0","b1"} THEN "full" ELSE IF n \in {"a0l","a1l","b0l","b1l"} THEN "l"
              ELSE IF n \in {"a0h","a1h","b0h","b1h"} THEN "h" ELSE "e"
CounterAcc(n) == CASE n = "a0" -> "a1" [] n = "a1" -> "a0" [] n = "b0" -> "b1" [] n = "b1" -> "b0"
                   [] n = "a0l" -> "a1l" [] n = "a1l" -> "a0l" [] n = "b0l" -> "b1l" [] n = "b1l" -> "b0l"
                   [] n = "a0h" -> "a1h" [] n = "a1h" -> "a0h" [] n = "b0h" -> "b1h" [] n = "b1h" -> "b0h"
                   [] n = "a0e" -> "a1e" [] n = "a1e" -> "a0e" [] n = "b0e" -> "b1e" [] n = "b1e" -> "b0e"

GetAcc(s, n)    == s.r[AccBase[n]]
SetAcc(s, n, v) == [s EXCEPT !.r[AccBase[n]] = v]
SetAccFlag(s, v) == LET f == AccFlags(v) IN [s EXCEPT !.r.fz = f.fz, !.r.fm = f.fm, !.r.fe = f.fe, !.r.fn = f.fn]
SetAccAndFlag(s, n, v) == SetAcc(SetAccFlag(s, v), n, v)
\* SatAndSetAccAndFlag: flags from the unsaturated value, then saturate unless sata
SatSetAccFlag(s, n, v) ==
    LET s1 == SetAccFlag(s, v) IN
    IF s.r.sata = 0
    THEN LET t == Saturate(v) IN SetAcc(IF t.lim = 1 THEN [s1 EXCEPT !.r.flm = 1] ELSE s1, n, t.v)
    ELSE SetAcc(s1, n, v)
\* GetAndSatAcc: [v, s] -- reading through the saturating bus may set flm
GetSatAcc(s, n) == IF s.r.sat = 0
                   THEN LET t == Saturate(GetAcc(s, n)) IN [v |-> t.v, s |-> IF t.lim = 1 THEN [s EXCEPT !.r.flm = 1] ELSE s]
                   ELSE [v |-> GetAcc(s, n), s |-> s]
GetSatAccNoFlag(s, n) == IF s.r.sat = 0 THEN Saturate(GetAcc(s, n)).v ELSE GetAcc(s, n)

\* AddSub with the flag side effects of Interpreter::AddSub: [v, s]
AddSubF(s, a, b, sub) ==
    LET t == AddSub(a, b, sub) IN
    [v |-> t.v, s |-> [s EXCEPT !.r.fc0 = t.c, !.r.fv = t.ov, !.r.fvl = IF t.ov = 1 THEN 1 ELSE @]]

P2B(s, unit) == ProductToBus(IF unit = 0 THEN s.r.p0 ELSE s.r.p1, s.r.pe[unit + 1], s.r.ps[unit + 1])
SetP(s, unit, p, pe) == IF unit = 0 THEN [s EXCEPT !.r.p0 = p, !.r.pe[1] = pe] ELSE [s EXCEPT !.r.p1 = p, !.r.pe[2] = pe]
\* DoMultiplication(unit, x_sign, y_sign)
DoMul(s, unit, xs, ys) == LET t == Multiply(s.r.x[unit + 1], s.r.y[unit + 1], xs, ys, s.r.hwm, unit) IN SetP(s, unit, t.p, t.pe)
\* ProductFromBus32
PFromBus(s, unit, l, h) == SetP(s, unit, <<l, h>>, h \div HB)

\* RegisterState::Lc(): index (1-based) of the loop frame whose counter is the program-visible lc
LcIndex(s) == IF s.r.lp # 0 THEN s.r.bcn ELSE 1

PseudoNames == {"ar0","ar1","arp0","arp1","arp2","arp3","stt0","stt1","stt2","st0","st1","st2","cfgi","cfgj",
                "mod0","mod1","mod2","mod3"}
RnIndex(n) == CASE n = "r0" -> 0 [] n = "r1" -> 1 [] n = "r2" -> 2 [] n = "r3" -> 3 [] n = "r4" -> 4 [] n = "r5" -> 5
                [] n = "r6" -> 6 [] n = "r7" -> 7
ExtIndex(n) == CASE n = "ext0" -> 1 [] n = "ext1" -> 2 [] n = "ext2" -> 3 [] n = "ext3" -> 4

\* Interpreter::RegToBus16(reg, enable_sat_for_mov): [v, s]
RegToBus(s, n, satmov) ==
    IF IsAccName(n) THEN
        CASE AccPart(n) = "full" -> [v |-> GetAcc(s, n)[1], s |-> s]
          [] AccPart(n) = "l" -> IF satmov THEN (LET t == GetSatAcc(s, n) IN [v |-> t.v[1], s |-> t.s]) ELSE [v |-> GetAcc(s, n)[1], s |-> s]
          [] AccPart(n) = "h" -> IF satmov THEN (LET t == GetSatAcc(s, n) IN [v |-> t.v[2], s |-> t.s]) ELSE [v |-> GetAcc(s, n)[2], s |-> s]
          [] AccPart(n) = "e" -> [v |-> 0, s |-> Fail(s, "assert")]
    ELSE IF n \in {"r0","r1","r2","r3","r4","r5","r6","r7"} THEN [v |-> s.r.r[RnIndex(n) + 1], s |-> s]
    ELSE IF n = "y0" THEN [v |-> s.r.y[1], s |-> s]
    ELSE IF n = "p"  THEN [v |-> P2B(s, 0)[2], s |-> s]
    ELSE IF n = "sp" THEN [v |-> s.r.sp, s |-> s]
    ELSE IF n = "sv" THEN [v |-> s.r.sv, s |-> s]
    ELSE IF n = "lc" THEN [v |-> s.r.bk[LcIndex(s)].lc, s |-> s]
    ELSE IF n \in PseudoNames THEN [v |-> PGet(s.r, n), s |-> s]
    ELSE IF n \in {"ext0","ext1","ext2","ext3"} THEN [v |-> s.r.ext[ExtIndex(n)], s |-> s]
    ELSE [v |-> 0, s |-> Fail(s, "assert")]                 \* pc, undefine

\* Interpreter::RegFromBus16
RegFromBus(s, n, v) ==
    IF IsAccName(n) THEN
        CASE AccPart(n) = "full" -> SatSetAccFlag(s, n, FromS16(v))
          [] AccPart(n) = "l" -> SatSetAccFlag(s, n, FromU16(v))
          [] AccPart(n) = "h" -> SatSetAccFlag(s, n, FromHi16(v))
          [] AccPart(n) = "e" -> Fail(s, "assert")
    ELSE IF n \in {"r0","r1","r2","r3","r4","r5","r6","r7"} THEN [s EXCEPT !.r.r[RnIndex(n) + 1] = v]
    ELSE IF n = "y0" THEN [s EXCEPT !.r.y[1] = v]
    ELSE IF n = "p"  THEN [s EXCEPT !.r.pe[1] = IF v >= HB THEN 1 ELSE 0, !.r.p0[2] = v]
    ELSE IF n = "sp" THEN [s EXCEPT !.r.sp = v]
    ELSE IF n = "sv" THEN [s EXCEPT !.r.sv = v]
    ELSE IF n = "lc" THEN [s EXCEPT !.r.bk[LcIndex(s)].lc = v]
    ELSE IF n \in PseudoNames THEN SetR(s, PSet(s.r, n, v))
    ELSE IF n \in {"ext0","ext1","ext2","ext3"} THEN [s EXCEPT !.r.ext[ExtIndex(n)] = v]
    ELSE Fail(s, "assert")

\* RegisterState::ConditionPass (operand Cond, values 0..15)
CondPass(r, c) ==
    CASE c = 0 -> TRUE
      [] c = 1 -> r.fz = 1
      [] c = 2 -> r.fz = 0
      [] c = 3 -> r.fz = 0 /\ r.fm = 0
      [] c = 4 -> r.fm = 0
      [] c = 5 -> r.fm = 1
      [] c = 6 -> r.fm = 1 \/ r.fz = 1
      [] c = 7 -> r.fn = 0
      [] c = 8 -> r.fc0 = 1
      [] c = 9 -> r.fv = 1
      [] c = 10 -> r.fe = 1
      [] c = 11 -> r.flm = 1 \/ r.fvl = 1
      [] c = 12 -> r.fr = 0
      [] c = 13 -> r.iu[1] = 0
      [] c = 14 -> r.iu[1] = 1
      [] c = 15 -> r.iu[2] = 1

\* stack / pc helpers
SpDec(s) == [s EXCEPT !.r.sp = (@ + B - 1) % B]
SpInc(s) == [s EXCEPT !.r.sp = (@ + 1) % B]
Push16(s, v) == LET s1 == SpDec(s) IN DWrite(s1, s1.r.sp, v)
\* pop: [v, s]
Pop16(s) == [v |-> DVal(s, s.r.sp), s |-> SpInc(DRead(s, s.r.sp))]
PushPC(s) == LET l == s.r.pc % B  h == (s.r.pc \div B) % B     \* pc is a 32-bit unsigned value in the code
             IN  IF s.r.cpc = 1 THEN Push16(Push16(s, h), l) ELSE Push16(Push16(s, l), h)
SetPC(s, pc) == IF pc < 262144 THEN [s EXCEPT !.r.pc = pc] ELSE Fail(s, "assert")     \* ASSERT(new_pc < 0x40000)
\* SetPC(l | h << 16) without forming a number that does not fit a TLC integer
SetPCLH(s, l, h) == IF h < 4 THEN [s EXCEPT !.r.pc = l + B * h] ELSE Fail(s, "assert")
PopPC(s) == LET t1 == Pop16(s)  t2 == Pop16(t1.s)
            IN  IF s.r.cpc = 1 THEN SetPCLH(t2.s, t1.v, t2.v) ELSE SetPCLH(t2.s, t2.v, t1.v)

\* RegisterState::ShadowSwap / SwapAr / SwapArp
SwapSS(r) == [r EXCEPT
    !.pcmhi = r.ss.pcmhi, !.sat = r.ss.sat, !.sata = r.ss.sata, !.hwm = r.ss.hwm, !.s = r.ss.s, !.ps = r.ss.ps,
    !.page = r.ss.page, !.stp16 = r.ss.stp16, !.cmd = r.ss.cmd, !.m = r.ss.m, !.br = r.ss.br, !.im = r.ss.im,
    !.imv = r.ss.imv, !.epi = r.ss.epi, !.epj = r.ss.epj,
    !.ss = [pcmhi |-> r.pcmhi, sat |-> r.sat, sata |-> r.sata, hwm |-> r.hwm, s |-> r.s, ps |-> r.ps, page |-> r.page,
            stp16 |-> r.stp16, cmd |-> r.cmd, m |-> r.m, br |-> r.br, im |-> r.im, imv |-> r.imv, epi |-> r.epi, epj |-> r.epj]]
SwapAr(r, k) == \* k = 0, 1
    LET sh == r.sar[k + 1] IN
    [r EXCEPT !.arrn[2 * k + 1] = sh.rni, !.arrn[2 * k + 2] = sh.rnj, !.arstep[2 * k + 1] = sh.stepi, !.arstep[2 * k + 2] = sh.stepj,
              !.aroffset[2 * k + 1] = sh.offseti, !.aroffset[2 * k + 2] = sh.offsetj,
              !.sar[k + 1] = [rni |-> r.arrn[2 * k + 1], rnj |-> r.arrn[2 * k + 2], stepi |-> r.arstep[2 * k + 1],
                              stepj |-> r.arstep[2 * k + 2], offseti |-> r.aroffset[2 * k + 1], offsetj |-> r.aroffset[2 * k + 2]]]
SwapArp(r, k) == \* k = 0..3
    LET sh == r.sarp[k + 1] IN
    [r EXCEPT !.arprni[k + 1] = sh.rni, !.arprnj[k + 1] = sh.rnj, !.arpstepi[k + 1] = sh.stepi, !.arpstepj[k + 1] = sh.stepj,
              !.arpoffseti[k + 1] = sh.offseti, !.arpoffsetj[k + 1] = sh.offsetj,
              !.sarp[k + 1] = [rni |-> r.arprni[k + 1], rnj |-> r.arprnj[k + 1], stepi |-> r.arpstepi[k + 1],
                               stepj |-> r.arpstepj[k + 1], offseti |-> r.arpoffseti[k + 1], offsetj |-> r.arpoffsetj[k + 1]]]
SwapAllArArp(r) == SwapArp(SwapArp(SwapArp(SwapArp(SwapAr(SwapAr(r, 0), 1), 0), 1), 2), 3)
ShadowSwap(r) == SwapAllArArp(SwapSS(r))
ShadowStore(r) == [r EXCEPT !.sh = [flm |-> r.flm, fvl |-> r.fvl, fe |-> r.fe, fc0 |-> r.fc0, fc1 |-> r.fc1, fv |-> r.fv,
                                     fn |-> r.fn, fm |-> r.fm, fz |-> r.fz, fr |-> r.fr]]
ShadowRestore(r) == [r EXCEPT !.flm = r.sh.flm, !.fvl = r.sh.fvl, !.fe = r.sh.fe, !.fc0 = r.sh.fc0, !.fc1 = r.sh.fc1,
                              !.fv = r.sh.fv, !.fn = r.sh.fn, !.fm = r.sh.fm, !.fz = r.sh.fz, !.fr = r.sh.fr]

\* Interpreter::ContextStore / ContextRestore
ContextStore(s) ==
    LET r1 == ShadowSwap(ShadowStore(s.r))
        r2 == IF r1.crep = 0 THEN [r1 EXCEPT !.repcs = r1.repc] ELSE r1
    IN  IF r2.ccnta = 0 THEN SetR(s, [r2 EXCEPT !.a1s = r2.a1, !.b1s = r2.b1])
        ELSE SetAccAndFlag(SetR(s, [r2 EXCEPT !.b1 = r2.a1]), "a1", r2.b1)
ContextRestore(s) ==
    LET r1 == ShadowSwap(ShadowRestore(s.r))
        r2 == IF r1.crep = 0 THEN [r1 EXCEPT !.repc = r1.repcs] ELSE r1
    IN  IF r2.ccnta = 0 THEN SetR(s, [r2 EXCEPT !.a1 = r2.a1s, !.b1 = r2.b1s])
        ELSE SetR(s, [r2 EXCEPT !.a1 = r2.b1, !.b1 = r2.a1])
=============================================================================
