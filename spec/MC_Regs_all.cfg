CONSTANTS W = 16
  Vals <- AllVals
INIT Init
NEXT Next
INVARIANT Inv
