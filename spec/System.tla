------------------------------- MODULE System -------------------------------
(* The composed machine as Teakra::Impl wires it (teakra.cpp): core + ICU + two timers + two audio ports  *)
(* + the two mailbox blocks behind the MMIO window, one operator per thing that happens: Cycle (one       *)
(* emulated cycle: CoreCycle, then the MMIO effects of the instruction in access order, then the          *)
(* peripheral tick in registration order timer0, timer1, btdmp0, btdmp1), HostCall (the host API between  *)
(* Run calls), SysReset.  There is deliberately no fast-forward here: the skip logic of Interpreter::Run  *)
(* is modelled in RunModel.tla and compared with plain cycles there.                                       *)
(*                                                                                                        *)
(* y = [ c  |-> core state (TeakMachine), tm |-> <<timer0, timer1>> (TimerOps records),                    *)
(*       icu |-> [req, en (3 words), ven, vlo, vhi, vctx (16 each)],                                       *)
(*       bt |-> <<btdmp0, btdmp1>> (Btdmp records), ap |-> [fc |-> apbp_from_cpu, fd |-> apbp_from_dsp],           *)
(*       cells |-> plain-storage MMIO cells written so far (offset -> value),                              *)
(*       ev |-> ordered callback/event log,                                                                *)
(*       dma |-> [en, act, ch |-> <<8 channel records of Dma.tla plus yv, zv>>]  (dma.h),                  *)
(*       ah |-> [busy, ch |-> 0..2 -> channel record of Ahbm.tla (burst queue included)]  (ahbm.h),        *)
(*       ext |-> external memory behind the AHBM callbacks: sparse byte map, wide address <<hi,lo>> -> byte *)
(*       xa |-> ordered log of the external-memory callbacks <<kind, addr hi, addr lo, value hi, value lo>>, *)
(*       hz |-> {} except while a guest-started transfer runs: the cells the same cycle accesses AFTER the   *)
(*              starting register write (see ApplyMmio) ]                                                   *)
EXTENDS TeakCore

TM == INSTANCE TimerOps WITH B <- 65536, FixedSkipZero <- TRUE
\* audio ports and mailboxes: the operators of the component modules (their own state machines are not used)
BT == INSTANCE Btdmp WITH Cap <- 16, TW <- 65536, ResetPeriod <- 4096, FixedSkipOverrun <- TRUE, Vals <- {}, Periods <- {},
                          Clocks <- {}, K <- 0, G <- 0, PhaseKept <- FALSE, s <- 0, ev <- 0, outc <- 0, gin <- 0, gout <- 0, gpad <- 0
AP == INSTANCE Apbp WITH NCh <- 3, Data <- 0 .. 65535, SemW <- 16, FixedMask <- TRUE, FixedReentry <- TRUE
\* DMA engine and AHB bridge: Channel::Start / Channel::Tick and the Ahbm entry points are the operators of Dma.tla /
\* Ahbm.tla at full width.  counter0 is a u32 in dma.h (FixedD8); a DSP-side access is at byte 2 * (0x20000 + cursor)
\* mod 2^32 and is performed iff it lies inside the array [0, 0x80000) (RealMap with the range the system recorder's
\* memory observer enforces: the whole array, program memory included -- known finding oob:dma_cursor)
DM == INSTANCE Dma WITH B <- 65536, BB <- 256, HB <- 256, FixedD8 <- TRUE, RealMap <- TRUE, DataHi <- 2, RangeLo <- 0, RangeHi <- 8,
                        SizeSet <- {}, StepPairs <- {}, ModeSet <- {}, BaseSet <- {}, AhbmSet <- {},
                        ch <- 0, ah <- 0, dmem <- 0, xmem <- 0, log <- 0, irq <- 0, ticks <- 0, phase <- 0

IrqTimer0 == 10  IrqTimer1 == 9  IrqBtdmp == 11  IrqApbp == 14  IrqDma == 15

-----------------------------------------------------------------------------
(* ICU (icu.h)                                                                                            *)
IcuReset == [req |-> 0, en |-> <<0, 0, 0>>, ven |-> 0, vlo |-> [i \in 1 .. 16 |-> 0], vhi |-> [i \in 1 .. 16 |-> 0],
             vctx |-> [i \in 1 .. 16 |-> 0]]

\* ICU::Trigger(bits): request |= bits; for every set irq in ascending order: signal each core line whose
\* enable word has the bit, and the vectored line (address/context of that irq; a later irq overrides)
RECURSIVE TriggerFrom(_, _, _)
TriggerFrom(y, bits, irq) ==
    IF irq > 15 THEN y
    ELSE IF Bit(bits, irq) = 0 THEN TriggerFrom(y, bits, irq + 1)
    ELSE LET L(k) == IF Bit(y.icu.en[k], irq) = 1 THEN 1 ELSE y.c.lat[k]
             lat1 == <<L(1), L(2), L(3), y.c.lat[4]>>
             vec  == Bit(y.icu.ven, irq) = 1
             c1   == IF vec
                     THEN [y.c EXCEPT !.lat = [lat1 EXCEPT ![4] = 1],
                                      !.vaddr = y.icu.vlo[irq + 1] + 65536 * y.icu.vhi[irq + 1],
                                      !.vctx = IF y.icu.vctx[irq + 1] # 0 THEN 1 ELSE 0]
                     ELSE [y.c EXCEPT !.lat = lat1]
         IN  TriggerFrom([y EXCEPT !.c = c1], bits, irq + 1)
IcuTrigger(y, bits) == TriggerFrom([y EXCEPT !.icu.req = @ | bits], bits, 0)
IcuAck(y, bits)     == [y EXCEPT !.icu.req = @ - (@ & bits)]

-----------------------------------------------------------------------------
(* MMIO register file as far as the system programs use it (mmio.cpp); every other offset is a plain      *)
(* storage cell, exactly as the default Cell of mmio.cpp                                                  *)
TimerOf(off) == IF off >= 48 THEN 1 ELSE 0                      \* 0x20.. timer0, 0x30.. timer1
TimerReg(off) == off - 32 - 16 * TimerOf(off)
IsTimerOff(off) == off >= 32 /\ off < 64 /\ TimerReg(off) \in {0, 2, 4, 6, 8, 10}
IsIcuOff(off) == off \in {512, 514, 516, 518, 520, 522, 524} \/ (off >= 530 /\ off < 594 /\ off % 2 = 0)
CellVal(y, off) == IF off \in DOMAIN y.cells THEN y.cells[off] ELSE 0
SetCell(y, off, v) == [y EXCEPT !.cells = (off :> v) @@ @]

\* --- memory interface unit (memory_interface.h, MMIO 0x10E-0x11E) ------------------------------------------------
MiuRead(y, off) ==
    LET m == y.c.miu IN
    CASE off = 270 -> m.xp [] off = 272 -> m.yp [] off = 274 -> m.z
      [] off = 276 -> (CellVal(y, 276) & (65535 - 63 - 63 * 256)) + m.xs[1] + 256 * m.ys[1]
      [] off = 278 -> (CellVal(y, 278) & (65535 - 63 - 63 * 256)) + m.xs[2] + 256 * m.ys[2]
      [] off = 282 -> (CellVal(y, 282) & (65535 - 64)) + 64 * m.pm
      [] off = 286 -> m.base
\* (a guest write has already acted on y.c.miu inside the instruction, see TeakMachine!RawWrite; applying it again is
\* idempotent; a host write through MMIOWrite acts here)
MiuWrite(y, off, v) ==
    LET y1 == [y EXCEPT !.c.miu = MiuApply(@, off, v)] IN
    IF off \in {276, 278, 282} THEN SetCell(y1, off, v) ELSE y1

\* --- mailboxes (apbp.cpp, MMIO 0x0C0-0x0D8; wiring of teakra.cpp) -------------------------------------------
IsApbpOff(off) == off \in {192, 194, 196, 198, 200, 202, 204, 206, 208, 210, 212, 214, 216}
\* the host's callbacks as they are invoked, in order (y.ev): integer triples
EvAudio(l, r) == <<0, l, r>>     \* audio callback with one stereo frame (samples as unsigned 16-bit numbers)
EvRecv(c)     == <<1, c, 0>>     \* receive-data handler of reply channel c
EvSem         == <<2, 0, 0>>     \* semaphore handler
Ev(y, e) == [y EXCEPT !.ev = Append(@, e)]
\* an operation on apbp_from_cpu: every handler of it is icu.TriggerSingle(0xE)
RECURSIVE TrigN(_, _)
TrigN(y, n) == IF n = 0 THEN y ELSE TrigN(IcuTrigger(y, 2 ^ IrqApbp), n - 1)
WireFc(y, r) == TrigN([y EXCEPT !.ap.fc = r.s], Len(r.hc))
\* an operation on apbp_from_dsp: its handlers are the host's callbacks (logged as events)
RECURSIVE HostCb(_, _, _)
HostCb(y, hc, j) == IF j > Len(hc) THEN y ELSE HostCb(Ev(y, IF hc[j] = AP!SEMH THEN EvSem ELSE EvRecv(hc[j])), hc, j + 1)
WireFd(y, r) == HostCb([y EXCEPT !.ap.fd = r.s], r.hc, 1)
ApbpCfgMask == 256 + 4096 + 8192
ApbpRead(y, off) ==
    LET fc == y.ap.fc  fd == y.ap.fd IN
    CASE off \in {192, 196, 200} -> fd.dat[(off - 192) \div 4]                      \* reply register: PeekData
      [] off \in {194, 198, 202} -> fc.dat[(off - 194) \div 4]                      \* command register: RecvData (clears ready)
      [] off = 204 -> fd.sem
      [] off = 206 -> fc.msk
      [] off = 208 -> 0
      [] off = 210 -> fc.sem
      [] off = 212 -> (CellVal(y, 212) & (65535 - ApbpCfgMask)) + 256 * fc.dis[0] + 4096 * fc.dis[1] + 8192 * fc.dis[2]    \* dis is 0/1 here: only this register sets it
      [] off = 214 -> (CellVal(y, 214) & (65535 - (32 + 64 + 128 + 256 + 512 + 4096 + 8192)))
                      + 32 * fd.rdy[0] + 64 * fd.rdy[1] + 128 * fd.rdy[2] + 256 * fc.rdy[0] + 512 * fc.sig + 4096 * fc.rdy[1] + 8192 * fc.rdy[2]
      [] off = 216 -> (CellVal(y, 216) & (65535 - (512 + 1024 + 2048 + 4096 + 8192 + 16384 + 32768)))
                      + 512 * fc.sig + 1024 * fd.rdy[0] + 2048 * fd.rdy[1] + 4096 * fd.rdy[2] + 8192 * fc.rdy[0] + 16384 * fc.rdy[1] + 32768 * fc.rdy[2]
ApbpWrite(y, off, v) ==
    CASE off \in {192, 196, 200} -> WireFd(y, AP!SendData(y.ap.fd, (off - 192) \div 4, v))
      [] off \in {194, 198, 202, 210} -> y
      [] off = 204 -> WireFd(y, AP!SetSemaphore(y.ap.fd, v))
      [] off = 206 -> WireFc(y, AP!MaskSemaphore(y.ap.fc, v))
      [] off = 208 -> WireFc(y, AP!ClearSemaphore(y.ap.fc, v))
      [] off = 212 -> SetCell([y EXCEPT !.ap.fc.dis = (0 :> Bit(v, 8)) @@ (1 :> Bit(v, 12)) @@ (2 :> Bit(v, 13))], 212, v)
      [] off \in {214, 216} -> SetCell(y, off, v)
\* reading a command register is a receive
ApbpReadEffect(y, off) == IF off \in {194, 198, 202} THEN [y EXCEPT !.ap.fc = AP!RecvData(y.ap.fc, (off - 194) \div 4).s] ELSE y

\* --- audio ports (btdmp.cpp, MMIO 0x2A0.. and 0x320..) -------------------------------------------------------
BtOf(off) == IF off >= 800 THEN 1 ELSE 0
BtReg(off) == off - 672 - 128 * BtOf(off)
IsBtdmpOff(off) == off >= 672 /\ off < 928 /\ BtReg(off) \in {2, 30, 34, 38, 42}
BtdmpRead(y, off) ==
    LET b == y.bt[BtOf(off) + 1]  k == BtReg(off) IN
    CASE k = 2 -> b.cc [] k = 30 -> b.en
      [] k = 34 -> (CellVal(y, off) & (65535 - 24)) + 8 * b.fu + 16 * b.em
      [] k = 38 -> CellVal(y, off)
      [] k = 42 -> 0
BtdmpWrite(y, off, v) ==
    LET i == BtOf(off)  b == y.bt[i + 1]  k == BtReg(off) IN
    CASE k = 2 -> [y EXCEPT !.bt[i + 1] = BT!SetClockOp(b, v).s]
      [] k = 30 -> [y EXCEPT !.bt[i + 1] = BT!SetEnableOp(b, v).s]
      [] k = 34 -> SetCell(y, off, v)
      [] k = 38 -> [y EXCEPT !.bt[i + 1] = BT!SendOp(b, v).s]
      [] k = 42 -> [y EXCEPT !.bt[i + 1] = BT!FlushOp(b, v).s]
\* Btdmp::Tick of port i: interrupt -> IRQ 11; the audio callback is installed on port 0 only
RECURSIVE BtEvents(_, _, _, _)
BtEvents(y, i, evs, j) ==
    IF j > Len(evs) THEN y
    ELSE IF evs[j] = BT!IRQ THEN BtEvents(IcuTrigger(y, 2 ^ IrqBtdmp), i, evs, j + 1)
    ELSE BtEvents(IF i = 0 THEN Ev(y, EvAudio(evs[j][2], evs[j][3])) ELSE y, i, evs, j + 1)
TickBtdmp(y, i) == LET r == BT!TickOp(y.bt[i + 1]) IN BtEvents([y EXCEPT !.bt[i + 1] = r.s], i, r.ev, 1)

\* --- AHB bridge and DMA engine (ahbm.cpp, dma.cpp; MMIO 0x0E0-0x0F2, 0x184, 0x18C, 0x1BE-0x1DE; wiring of teakra.cpp) ---
\* State as the classes have it.  The channel records are those of Dma.tla / Ahbm.tla (so that DM!StartOp, DM!TickOp,
\* DM!Read32Op ... apply to them as they stand) plus the two plain per-channel registers y and z of dma.h.
DmaChanReset == [sa |-> <<0, 0>>, da |-> <<0, 0>>, z0 |-> 0, z1 |-> 0, z2 |-> 0, ss |-> <<0, 0, 0>>, ds |-> <<0, 0, 0>>,
                 sp |-> 0, dp |-> 0, dw |-> 0, yv |-> 0, zv |-> 0,
                 cs |-> <<0, 0>>, cd |-> <<0, 0>>, c0 |-> 0, c1 |-> 0, c2 |-> 0, run |-> 0, ach |-> 0]
DmaReset == [en |-> 0, act |-> 0, ch |-> <<DmaChanReset, DmaChanReset, DmaChanReset, DmaChanReset,
                                           DmaChanReset, DmaChanReset, DmaChanReset, DmaChanReset>>]
AhReset == [busy |-> 0, ch |-> (0 :> DM!AhbmChanReset) @@ (1 :> DM!AhbmChanReset) @@ (2 :> DM!AhbmChanReset)]

\* external memory (the host's AHBM callbacks): bytes never written hold a value derived from their address (the
\* recorder's callbacks use the same rule), so that a moved byte tells where it came from
ExtFill(a) == (7 * a[2] + 13 * a[1] + 3) % 256
ExtByte(y, a) == IF a \in DOMAIN y.ext THEN y.ext[a] ELSE ExtFill(a)
XB(y, a, k) == ExtByte(y, DM!AddK(a, k))
SetExt(y, a, k, b) == [y EXCEPT !.ext = (DM!AddK(a, k) :> b) @@ @]
Xa(y, e) == [y EXCEPT !.xa = Append(@, <<e[1], e[2][1], e[2][2], e[3][1], e[3][2]>>)]
\* DSP side: SharedMemory::ReadWord / WriteWord(0x20000 + cursor) go straight to the array, not through the MIU;
\* a is the byte address (wide), inside the array here
DspWord(a) == (a[1] * 65536 + a[2]) \div 2

\* what the environment returns for one read request <<kind, address>> of Dma.tla / Ahbm.tla, as a 32-bit value
\* (new here: Dma.tla's own state machine reads its scaled model memories; this reads the composed machine's)
EnvRead(y, req) ==
    LET k == req[1]  a == req[2] IN
    IF k = DM!KDspR THEN <<0, MemVal(y.c, DspWord(a))>>
    ELSE IF k = DM!KR8 THEN <<0, XB(y, a, 0)>>
    ELSE IF k = DM!KR16 THEN <<0, XB(y, a, 0) + 256 * XB(y, a, 1)>>
    ELSE IF k = DM!KR32 THEN <<XB(y, a, 2) + 256 * XB(y, a, 3), XB(y, a, 0) + 256 * XB(y, a, 1)>>
    ELSE <<0, 0>>                                                \* vetoed DSP read: returns 0
EnvVals(y, reqs) == [i \in 1 .. Len(reqs) |-> EnvRead(y, reqs[i])]

\* one event <<kind, address, value>> of a tick / an AHBM call acting on the composed machine: DSP writes land in
\* y.c.mem and in the access list (so that the cell is part of the observation), external accesses in y.ext and, in
\* order, in y.xa; a DSP access outside the array is the outcome "oob" (the read returned 0, the write is dropped)
EnvEvent(y, e) ==
    LET k == e[1]  a == e[2]  v == e[3] IN
    IF (k = DM!KDspR \/ k = DM!KDspW) /\ DspWord(a) \in y.hz THEN [y EXCEPT !.c = Fail(@, "dma-grain")]
    ELSE IF k = DM!KDspR THEN y
    ELSE IF k = DM!KDspW THEN [y EXCEPT !.c = RawWrite(@, DspWord(a), v[2])]
    ELSE IF k = DM!KOobR \/ k = DM!KOobW THEN [y EXCEPT !.c = Fail(@, "oob")]
    ELSE IF k = DM!KW8  THEN Xa(SetExt(y, a, 0, v[2] % 256), e)
    ELSE IF k = DM!KW16 THEN Xa(SetExt(SetExt(y, a, 0, v[2] % 256), a, 1, v[2] \div 256), e)
    ELSE IF k = DM!KW32 THEN Xa(SetExt(SetExt(SetExt(SetExt(y, a, 0, v[2] % 256), a, 1, v[2] \div 256), a, 2, v[1] % 256), a, 3, v[1] \div 256), e)
    ELSE Xa(y, e)                                                \* external read
RECURSIVE EnvEvents(_, _, _)
EnvEvents(y, evs, j) == IF j > Len(evs) THEN y ELSE EnvEvents(EnvEvent(y, evs[j]), evs, j + 1)

\* Dma::DoDma(n): Start, ahbm_channel := GetChannelForDma(n), Tick while running, then the interrupt handler, which
\* teakra.cpp wires to icu.TriggerSingle(0xF).  Everything happens inside the register write, synchronously.
\* (The loop is as coded; the specification gives up -- an outcome no recording has -- beyond DmaFuel elements.)
DmaFuel == 4096
DmaTickApply(y, n, r) == EnvEvents([y EXCEPT !.dma.ch[n + 1] = r.ch, !.ah.ch = r.ah], r.ev, 1)
RECURSIVE DmaRun(_, _, _)
DmaRun(y, n, fuel) ==
    IF y.dma.ch[n + 1].run = 0 THEN y
    ELSE IF fuel = 0 THEN [y EXCEPT !.c = Fail(@, "dma-too-long")]
    ELSE DmaRun(DmaTickApply(y, n, DM!TickOp(y.dma.ch[n + 1], y.ah.ch, EnvVals(y, DM!ReadReqs(y.dma.ch[n + 1], y.ah.ch)))), n, fuel - 1)
DoDma(y, n) ==
    LET y1 == DmaRun([y EXCEPT !.dma.ch[n + 1] = DM!StartOp(@, DM!ChannelForDma(y.ah.ch, n))], n, DmaFuel)
    IN  IF y1.c.out # "ok" THEN y1 ELSE IcuTrigger([y1 EXCEPT !.hz = {}], 2 ^ IrqDma)

\* AHBM registers: 0x0E0 busy flag (read only), per channel i at 0x0E2 + 6 i: burst (bits 1-2) / unit (bits 4-5) over a
\* storage word, 0x0E4 + 6 i: direction (bit 8) over a storage word, 0x0E6 + 6 i: DMA channel mask
IsAhbmOff(off) == off \in {224, 226, 228, 230, 232, 234, 236, 238, 240, 242}
AhIdx(off) == (off - 226) \div 6
AhReg(off) == (off - 226) % 6
AhbmRead(y, off) ==
    IF off = 224 THEN y.ah.busy
    ELSE LET a == y.ah.ch[AhIdx(off)]  k == AhReg(off) IN
         CASE k = 0 -> (CellVal(y, off) & (65535 - 6 - 48)) + 2 * a.bu + 16 * a.u
           [] k = 2 -> (CellVal(y, off) & (65535 - 256)) + 256 * a.dir
           [] k = 4 -> a.dm
AhbmWrite(y, off, v) ==
    IF off = 224 THEN y                                            \* NoSet
    ELSE LET i == AhIdx(off)  k == AhReg(off) IN
         CASE k = 0 -> SetCell([y EXCEPT !.ah.ch[i].bu = (v \div 2) % 4, !.ah.ch[i].u = (v \div 16) % 4], off, v)
           [] k = 2 -> SetCell([y EXCEPT !.ah.ch[i].dir = Bit(v, 8)], off, v)
           [] k = 4 -> [y EXCEPT !.ah.ch[i].dm = v]

\* DMA registers: 0x184 enable word, 0x18C reads 0xFFFF (its setter is the default storage nobody reads), 0x1BE the
\* active channel (3 bits), 0x1C0-0x1DE the registers of the active channel; 0x1DA is a bit-field cell (source space
\* bits 0-3, destination space bits 4-7, double-word mode bit 10) over ONE storage word shared by all channels;
\* writing 0x40C0 to 0x1DE runs the transfer of the active channel
IsDmaOff(off) == off = 388 \/ off = 396 \/ (off >= 446 /\ off <= 478 /\ off % 2 = 0)
DmaRead(y, off) ==
    IF off = 388 THEN y.dma.en ELSE IF off = 396 THEN 65535 ELSE IF off = 446 THEN y.dma.act
    ELSE LET h == y.dma.ch[y.dma.act + 1] IN
         CASE off = 448 -> h.sa[2] [] off = 450 -> h.sa[1] [] off = 452 -> h.da[2] [] off = 454 -> h.da[1]
           [] off = 456 -> h.z0 [] off = 458 -> h.z1 [] off = 460 -> h.z2
           [] off = 462 -> h.ss[1] [] off = 464 -> h.ds[1] [] off = 466 -> h.ss[2] [] off = 468 -> h.ds[2]
           [] off = 470 -> h.ss[3] [] off = 472 -> h.ds[3]
           [] off = 474 -> (CellVal(y, off) & (65535 - 15 - 240 - 1024)) + h.sp + 16 * h.dp + 1024 * h.dw
           [] off = 476 -> h.yv [] off = 478 -> h.zv
DmaWrite(y, off, v) ==
    IF off = 388 THEN [y EXCEPT !.dma.en = v] ELSE IF off = 396 THEN y ELSE IF off = 446 THEN [y EXCEPT !.dma.act = v % 8]
    ELSE LET n == y.dma.act + 1 IN
         CASE off = 448 -> [y EXCEPT !.dma.ch[n].sa[2] = v] [] off = 450 -> [y EXCEPT !.dma.ch[n].sa[1] = v]
           [] off = 452 -> [y EXCEPT !.dma.ch[n].da[2] = v] [] off = 454 -> [y EXCEPT !.dma.ch[n].da[1] = v]
           [] off = 456 -> [y EXCEPT !.dma.ch[n].z0 = v] [] off = 458 -> [y EXCEPT !.dma.ch[n].z1 = v]
           [] off = 460 -> [y EXCEPT !.dma.ch[n].z2 = v]
           [] off = 462 -> [y EXCEPT !.dma.ch[n].ss[1] = v] [] off = 464 -> [y EXCEPT !.dma.ch[n].ds[1] = v]
           [] off = 466 -> [y EXCEPT !.dma.ch[n].ss[2] = v] [] off = 468 -> [y EXCEPT !.dma.ch[n].ds[2] = v]
           [] off = 470 -> [y EXCEPT !.dma.ch[n].ss[3] = v] [] off = 472 -> [y EXCEPT !.dma.ch[n].ds[3] = v]
           [] off = 474 -> SetCell([y EXCEPT !.dma.ch[n].sp = v % 16, !.dma.ch[n].dp = (v \div 16) % 16, !.dma.ch[n].dw = Bit(v, 10)], off, v)
           [] off = 476 -> [y EXCEPT !.dma.ch[n].yv = v]
           [] off = 478 -> IF v = 16576 THEN DoDma([y EXCEPT !.dma.ch[n].zv = v], y.dma.act) ELSE [y EXCEPT !.dma.ch[n].zv = v]

\* the host's AHBM accessors (teakra.cpp): Ahbm::Read16/Read32/Write16/Write32 on AHBM channel 0; addresses and 32-bit
\* values are wide <<hi, lo>>.  AHBMRead32 is declared std::uint16_t: the caller gets the low half of the value.
AhbmHost(y, r) == EnvEvents([y EXCEPT !.ah.ch[0] = r.c], r.ev, 1)
AhbmHostRead32(y, addr) == DM!Read32Op(y.ah.ch[0], addr, EnvVals(y, DM!ReadReqs32(y.ah.ch[0], addr)))
AhbmHostRead16(y, addr) == DM!Read16Op(y.ah.ch[0], addr, EnvVals(y, DM!ReadReqs32(y.ah.ch[0], addr)))

TimerCfgRead(y, i) ==
    LET t == y.tm[i + 1]  raw == CellVal(y, 32 + 16 * i)
        keep == raw & (65535 - (3 + 28 + 256 + 512 + 1024))     \* bits not overlaid by a getter
    IN  keep + t.sc + 4 * t.m + 256 * t.p + 512 * t.u

\* (TeakMachine!RawWrite extends the read function of the cycle by `written offset :> value`, which makes TLC tabulate
\* it for all 2048 offsets at every instruction that writes a register: the plain storage cells -- nearly all of
\* them -- are therefore told apart by one table lookup, BoundTab, before the chain of register families is walked.
\* BoundTab may be TRUE for more offsets than mmio.cpp binds: MmioRegRead ends in the plain cell as well.)
MmioRegRead(y, off) ==
    IF IsTimerOff(off) THEN
        LET i == TimerOf(off)  t == y.tm[i + 1]  k == TimerReg(off) IN
        CASE k = 0 -> TimerCfgRead(y, i)
          [] k = 2 -> 0
          [] k = 4 -> t.s[2]
          [] k = 6 -> t.s[1]
          [] k = 8 -> t.mi[2]
          [] k = 10 -> t.mi[1]
    ELSE IF off = 512 THEN y.icu.req
    ELSE IF off \in {514, 516} THEN 0
    ELSE IF off \in {518, 520, 522} THEN y.icu.en[(off - 518) \div 2 + 1]
    ELSE IF off = 524 THEN y.icu.ven
    ELSE IF off >= 530 /\ off < 594 /\ off % 4 = 2
         THEN LET i == (off - 530) \div 4 + 1  raw == CellVal(y, off)
              IN  (raw & (65535 - 3 - 32768)) + y.icu.vhi[i] + 32768 * y.icu.vctx[i]
    ELSE IF off >= 532 /\ off < 596 /\ off % 4 = 0 THEN y.icu.vlo[(off - 532) \div 4 + 1]
    ELSE IF off = 26 THEN 51458                                  \* chip detect 0xC902
    ELSE IF IsMiuOff(off) THEN MiuRead(y, off)
    ELSE IF IsApbpOff(off) THEN ApbpRead(y, off)
    ELSE IF IsBtdmpOff(off) THEN BtdmpRead(y, off)
    ELSE IF IsDmaOff(off) THEN DmaRead(y, off)
    ELSE IF IsAhbmOff(off) THEN AhbmRead(y, off)
    ELSE CellVal(y, off)
BoundTab == TLCEval([o \in 0 .. 2047 |-> \/ IsTimerOff(o) \/ (o >= 512 /\ o < 596) \/ o = 26 \/ IsMiuOff(o) \/ IsApbpOff(o)
                                        \/ IsBtdmpOff(o) \/ IsDmaOff(o) \/ IsAhbmOff(o)])
MmioRead(y, off) == IF BoundTab[off] THEN MmioRegRead(y, off) ELSE CellVal(y, off)

\* interrupt of timer i through the ICU
TimerIrq(y, i, n) == IF n = 0 THEN y ELSE IcuTrigger(y, 2 ^ (IF i = 0 THEN IrqTimer0 ELSE IrqTimer1))
ApplyTimer(y, i, res) ==
    LET y1 == [y EXCEPT !.tm[i + 1] = res.t] IN
    IF res.out # "ok" THEN [y1 EXCEPT !.c = Fail(y1.c, res.out)] ELSE TimerIrq(y1, i, res.irq)

MmioWrite(y, off, v) ==
    IF IsTimerOff(off) THEN
        LET i == TimerOf(off)  t == y.tm[i + 1]  k == TimerReg(off) IN
        CASE k = 0 -> \* TIMERx_CFG: slots in declaration order: scale, mode, pause, update_mmio, RES (restart)
                LET t1 == [t EXCEPT !.sc = v % 4, !.m = (v \div 4) % 8, !.p = Bit(v, 8), !.u = Bit(v, 9)]
                    y1 == SetCell([y EXCEPT !.tm[i + 1] = t1], off, v)
                IN  IF Bit(v, 10) = 1 THEN ApplyTimer(y1, i, TM!RestartOp(t1)) ELSE y1
          [] k = 2 -> IF v # 0 THEN ApplyTimer(y, i, TM!TickEventOp(t)) ELSE y
          [] k = 4 -> [y EXCEPT !.tm[i + 1].s = <<t.s[1], v>>]
          [] k = 6 -> [y EXCEPT !.tm[i + 1].s = <<v, t.s[2]>>]
          [] k = 8 -> [y EXCEPT !.tm[i + 1].mi = <<t.mi[1], v>>]
          [] k = 10 -> [y EXCEPT !.tm[i + 1].mi = <<v, t.mi[2]>>]
    ELSE IF off = 512 THEN y                                      \* NoSet
    ELSE IF off = 514 THEN IcuAck(y, v)
    ELSE IF off = 516 THEN IcuTrigger(y, v)
    ELSE IF off \in {518, 520, 522} THEN [y EXCEPT !.icu.en[(off - 518) \div 2 + 1] = v]
    ELSE IF off = 524 THEN [y EXCEPT !.icu.ven = v]
    ELSE IF off >= 530 /\ off < 594 /\ off % 4 = 2
         THEN LET i == (off - 530) \div 4 + 1
              IN  SetCell([y EXCEPT !.icu.vhi[i] = v % 4, !.icu.vctx[i] = Bit(v, 15)], off, v)
    ELSE IF off >= 532 /\ off < 596 /\ off % 4 = 0 THEN [y EXCEPT !.icu.vlo[(off - 532) \div 4 + 1] = v]
    ELSE IF off = 26 THEN y
    ELSE IF IsMiuOff(off) THEN MiuWrite(y, off, v)
    ELSE IF IsApbpOff(off) THEN ApbpWrite(y, off, v)
    ELSE IF IsBtdmpOff(off) THEN BtdmpWrite(y, off, v)
    ELSE IF IsDmaOff(off) THEN DmaWrite(y, off, v)
    ELSE IF IsAhbmOff(off) THEN AhbmWrite(y, off, v)
    ELSE SetCell(y, off, v)

\* offsets bound by mmio.cpp to peripherals this module does not model: a program touching one makes the
\* specification decline the trace (outcome "unmodelled"); it never guesses.  There is none left: every offset
\* mmio.cpp binds is a register modelled above (timers, ICU, MIU, mailboxes, audio ports, AHBM, DMA) or the
\* chip-detect constant; everything else is a plain storage cell.
UnmodelledOff(off) == FALSE
Modelled(off) == ~ UnmodelledOff(off)

-----------------------------------------------------------------------------
(* one emulated cycle                                                                                      *)
MmioRange == MmioBase .. MmioBase + 2047

\* the MMIO writes (and side-effecting reads) of the executed instruction, in access order.
\* Grain: these effects are applied after the core part of the cycle (instruction and interrupt entry).  For a DMA
\* transfer -- the only register effect that reads and writes memory -- this is the real order unless the same cycle
\* touches, after the starting write, a cell the transfer touches too (the return address pushed by an interrupt entered
\* in that cycle landing in a transfer's range).  That case is not guessed: the cells accessed later in the cycle are
\* handed to the transfer (y.hz) and a transfer touching one of them ends in the outcome "dma-grain", which no
\* recording has.  The recorder's programs keep their transfers away from the stack.
LaterTouched(acc, j) == {acc[k][1] : k \in {i \in j + 1 .. Len(acc) : acc[i][1] < MmioBase}}
IsDmaStart(a) == a[2] = 1 /\ a[1] = MmioBase + 478 /\ a[3] = 16576
RECURSIVE ApplyMmio(_, _, _)
ApplyMmio(y, acc, j) ==
    IF j > Len(acc) THEN y
    ELSE LET a == acc[j] IN
         IF a[1] \in MmioRange
         THEN (IF ~ Modelled(a[1] - MmioBase) THEN [y EXCEPT !.c = Fail(y.c, "unmodelled")]
               ELSE IF a[2] = 1 THEN ApplyMmio(MmioWrite(IF IsDmaStart(a) THEN [y EXCEPT !.hz = LaterTouched(acc, j)] ELSE y,
                                                         a[1] - MmioBase, a[3]), acc, j + 1)
               ELSE ApplyMmio(ApbpReadEffect(y, a[1] - MmioBase), acc, j + 1))
         ELSE ApplyMmio(y, acc, j + 1)

\* the core state for this cycle: MMIO reads return what each register reads now (a lazily evaluated,
\* never nested function: only the registers actually read are computed); the access list starts empty
CoreWithMmio(y) == [y.c EXCEPT !.io = [o \in 0 .. 2047 |-> MmioRead(y, o)], !.acc = <<>>]
EmptyIo == [o \in {} |-> 0]
StripMmio(c) == [c EXCEPT !.io = EmptyIo]

TickTimers(y) ==    \* CoreTiming::Tick in registration order: timer0, timer1, btdmp0, btdmp1
    LET y1 == ApplyTimer(y, 0, TM!TickOp(y.tm[1]))
        y2 == ApplyTimer(y1, 1, TM!TickOp(y1.tm[2]))
    IN  IF y2.c.out # "ok" THEN y2 ELSE TickBtdmp(TickBtdmp(y2, 0), 1)

Cycle(y) ==
    LET c1 == CoreCycle(CoreWithMmio(y))
        y1 == ApplyMmio([y EXCEPT !.c = StripMmio(c1)], c1.acc, 1)
    IN  IF y1.c.out # "ok" THEN y1 ELSE TickTimers(y1)

-----------------------------------------------------------------------------
(* Quiescent fast-forward, specification level (used by SysTrace for long runs; the property layer of C06 is that the CODE's  *)
(* fast-forward is invisible, so the specification's own one has to be justified independently):                            *)
(* if one Cycle from y changed nothing but the timers and the audio ports -- the core fetched one instruction, touched no    *)
(* data, no MMIO register, raised no interrupt, made no callback and is where it was -- then every following cycle repeats   *)
(* it until a peripheral raises an interrupt.  Within the common horizon of the four ticking components, k further cycles    *)
(* are k ticks of each of them, and k ticks within the horizon equal one Skip(k) without interrupt: TimerInd!StepLemma /       *)
(* HorizonLemma (Apalache, all 32-bit states), Btdmp!SkipIsTicks (TLC, scaled capacity; bound to the code by BtdmpTrace).      *)
FetchOnly(c, pc0) == Len(c.acc) <= 2 /\ \A i \in 1 .. Len(c.acc) : c.acc[i][2] = 0 /\ c.acc[i][1] \in {pc0, pc0 + 1}
QuietStep(y, y1) ==
    /\ y.c.idle /\ y1.c.idle /\ y.c.out = "ok" /\ y1.c.out = "ok"
    /\ FetchOnly(y1.c, y.c.r.pc)
    /\ y1.c.r = y.c.r /\ y1.c.lat = y.c.lat /\ y1.c.vaddr = y.c.vaddr /\ y1.c.vctx = y.c.vctx /\ y1.c.miu = y.c.miu
    /\ y1.icu = y.icu /\ y1.ev = y.ev
MinI(a, b) == IF a <= b THEN a ELSE b
\* a wide horizon as an integer, capped (TLC integers are 32-bit)
CapW(w, cap) == IF w[1] >= 16384 THEN cap ELSE MinI(w[1] * 65536 + w[2], cap)
\* (an enabled audio port emits one frame per period also from an empty queue: at most 128 frames per jump)
FrameCap(b, cap) == IF b.en = 0 THEN cap ELSE MinI(cap, 128 * (IF b.pd = 0 THEN 1 ELSE b.pd))
CommonHorizon(y, cap) ==
    MinI(MinI(CapW(TM!Horizon(y.tm[1]), cap), CapW(TM!Horizon(y.tm[2]), cap)),
         MinI(MinI(BT!Horizon(y.bt[1]), FrameCap(y.bt[1], cap)), MinI(BT!Horizon(y.bt[2]), FrameCap(y.bt[2], cap))))
RECURSIVE AudioFrames(_, _, _)
AudioFrames(y, evs, j) == IF j > Len(evs) THEN y ELSE AudioFrames(Ev(y, EvAudio(evs[j][2], evs[j][3])), evs, j + 1)
\* k cycles at once from a quiescent state (k <= CommonHorizon): [y, k]
JumpBy(y, k) ==
    LET kw == <<k \div 65536, k % 65536>>
        t1 == TM!SkipOp(y.tm[1], kw)  t2 == TM!SkipOp(y.tm[2], kw)
        b1 == BT!SkipOp(y.bt[1], k)   b2 == BT!SkipOp(y.bt[2], k)
        ok == t1.out = "ok" /\ t2.out = "ok" /\ b1.out = "ok" /\ b2.out = "ok"
        y1 == [y EXCEPT !.tm = <<t1.t, t2.t>>, !.bt = <<b1.s, b2.s>>]
    IN  IF ok THEN AudioFrames(y1, b1.ev, 1) ELSE [y EXCEPT !.c = Fail(y.c, "skip-lemma")]
Jump(y, maxk) == LET k == CommonHorizon(y, maxk) IN [y |-> IF k > 0 THEN JumpBy(y, k) ELSE y, k |-> k]

ApFresh == [rdy |-> (0 :> 0) @@ (1 :> 0) @@ (2 :> 0), dat |-> (0 :> 0) @@ (1 :> 0) @@ (2 :> 0), dis |-> (0 :> 0) @@ (1 :> 0) @@ (2 :> 0),
            sem |-> 0, msk |-> 0, sig |-> 0]
ApReset == [fc |-> ApFresh, fd |-> ApFresh]

\* Teakra::Reset (Impl::Reset): memory zeroed, MIU, ICU, APBP, timers, AHBM, DMA, BTDMP, processor (registers, interrupt latches,
\* idle flag).  NOT reset, as coded: the backing storage of the MMIO cells (`cells`; known finding of C17), the external memory,
\* the host's callbacks.
SysReset(y) ==
    [y EXCEPT !.c.mem = [ph \in {} |-> 0], !.c.io = EmptyIo, !.c.miu = MiuLive, !.c.r = ResetRegs, !.c.lat = <<0, 0, 0, 0>>,
              !.c.vaddr = 0, !.c.vctx = 0, !.c.idle = FALSE, !.icu = IcuReset, !.tm = <<TM!ResetState, TM!ResetState>>,
              !.bt = <<BT!ResetState, BT!ResetState>>, !.ap = ApReset, !.dma = DmaReset, !.ah = AhReset]

\* host API calls (teakra.cpp), made between Run calls: [y, ret].  The memory accessors go through the same
\* MemoryInterface as the guest: MMIO-window accesses have the register's effect, asserts included.
HostMem(y, c1) == ApplyMmio([y EXCEPT !.c = StripMmio(c1)], c1.acc, 1)
ReadVal(c1) == IF c1.out = "ok" /\ c1.acc # <<>> THEN c1.acc[Len(c1.acc)][3] ELSE 0
A32(a) == DataBase + (a % 131072)                 \* DataReadA32 / DataWriteA32: (address & 0x1FFFF) + 0x20000
HostMmio(y, off) == IF Modelled(off) THEN y ELSE [y EXCEPT !.c = Fail(y.c, "unmodelled")]
HostCall(y, op, a1, a2) ==
    CASE op = "SendData"      -> [y |-> WireFc(y, AP!SendData(y.ap.fc, a1, a2)), ret |-> 0]
      [] op = "RecvData"      -> [y |-> [y EXCEPT !.ap.fd = AP!RecvData(y.ap.fd, a1).s], ret |-> y.ap.fd.dat[a1]]
      [] op = "PeekRecvData"  -> [y |-> y, ret |-> y.ap.fd.dat[a1]]
      [] op = "RecvDataIsReady" -> [y |-> y, ret |-> y.ap.fd.rdy[a1]]
      [] op = "SendDataIsEmpty" -> [y |-> y, ret |-> 1 - y.ap.fc.rdy[a1]]
      [] op = "SetSemaphore"  -> [y |-> WireFc(y, AP!SetSemaphore(y.ap.fc, a1)), ret |-> 0]
      [] op = "ClearSemaphore" -> [y |-> [y EXCEPT !.ap.fd = AP!ClearSemaphore(y.ap.fd, a1).s], ret |-> 0]
      [] op = "MaskSemaphore" -> [y |-> WireFd(y, AP!MaskSemaphore(y.ap.fd, a1)), ret |-> 0]
      [] op = "GetSemaphore"  -> [y |-> y, ret |-> y.ap.fd.sem]
      [] op = "DataWrite"     -> [y |-> HostMem(y, DWrite(CoreWithMmio(y), a1, a2)), ret |-> 0]
      [] op = "DataRead"      -> LET c1 == DRead(CoreWithMmio(y), a1) IN [y |-> HostMem(y, c1), ret |-> ReadVal(c1)]
      [] op = "DataWriteBypass" -> [y |-> HostMem(y, IF DataPage(y.c, a1) >= 2 THEN Fail(y.c, "assert")
                                                     ELSE RawWrite(CoreWithMmio(y), DataBase + a1 + 65536 * DataPage(y.c, a1), a2)), ret |-> 0]
      [] op = "DataReadBypass" -> LET c1 == IF DataPage(y.c, a1) >= 2 THEN Fail(y.c, "assert")
                                            ELSE RawRead(CoreWithMmio(y), DataBase + a1 + 65536 * DataPage(y.c, a1))
                                  IN  [y |-> HostMem(y, c1), ret |-> ReadVal(c1)]
      [] op = "DataWriteA32"  -> [y |-> HostMem(y, RawWrite(CoreWithMmio(y), A32(a1), a2)), ret |-> 0]
      [] op = "DataReadA32"   -> LET c1 == RawRead(CoreWithMmio(y), A32(a1)) IN [y |-> HostMem(y, c1), ret |-> ReadVal(c1)]
      [] op = "ProgramWrite"  -> [y |-> HostMem(y, PWrite(CoreWithMmio(y), a1, a2)), ret |-> 0]
      [] op = "ProgramRead"   -> LET c1 == PRead(CoreWithMmio(y), a1) IN [y |-> HostMem(y, c1), ret |-> ReadVal(c1)]
      [] op = "AHBMRead16"    -> LET r == AhbmHostRead16(y, a1) IN [y |-> AhbmHost(y, r), ret |-> r.v]
      [] op = "AHBMRead32"    -> LET r == AhbmHostRead32(y, a1) IN [y |-> AhbmHost(y, r), ret |-> r.v[2]]
      [] op = "AHBMWrite16"   -> [y |-> AhbmHost(y, DM!Write16Op(y.ah.ch[0], a1, a2)), ret |-> 0]
      [] op = "AHBMWrite32"   -> [y |-> AhbmHost(y, DM!Write32Op(y.ah.ch[0], a1, a2)), ret |-> 0]
      [] op = "AHBMGetUnitSize"   -> [y |-> y, ret |-> y.ah.ch[a1].u]
      [] op = "AHBMGetDirection"  -> [y |-> y, ret |-> y.ah.ch[a1].dir]
      [] op = "AHBMGetDmaChannel" -> [y |-> y, ret |-> y.ah.ch[a1].dm]
      [] op = "DMAChan0GetSrcHigh" -> [y |-> y, ret |-> y.dma.ch[1].sa[1]]      \* (activates channel 0 and the saved one again)
      [] op = "DMAChan0GetDstHigh" -> [y |-> y, ret |-> y.dma.ch[1].da[1]]
      [] op = "MMIOWrite"     -> [y |-> MmioWrite(HostMmio(y, a1 % 2048), a1 % 2048, a2), ret |-> 0]
      [] op = "Reset"         -> [y |-> SysReset(y), ret |-> 0]
      [] op = "MMIORead"      -> [y |-> ApbpReadEffect(HostMmio(y, a1 % 2048), a1 % 2048), ret |-> MmioRead(y, a1 % 2048)]

=============================================================================
