------------------------------- MODULE System -------------------------------
(* The composed machine as Teakra::Impl wires it (teakra.cpp): core + ICU + two timers + two audio ports  *)
(* + the two mailbox blocks behind the MMIO window, one operator per thing that happens: Cycle (one       *)
(* emulated cycle: CoreCycle, then the MMIO effects of the instruction in access order, then the          *)
(* peripheral tick in registration order timer0, timer1, btdmp0, btdmp1), HostCall (the host API between  *)
(* Run calls), SysReset.  There is deliberately no fast-forward here: the skip logic of Interpreter::Run  *)
(* is modelled in RunModel.tla and compared with plain cycles there.                                       *)
(*                                                                                                        *)
(* y = [ c  |-> core state (TeakMachine), tm |-> <<timer0, timer1>> (TimerOps records),                    *)
(*       icu |-> [req, en (3 words), ven, vlo, vhi, vctx (16 each)],                                       *)
(*       bt |-> <<btdmp0, btdmp1>> (Btdmp records), ap |-> [fc |-> apbp_from_cpu, fd |-> apbp_from_dsp],           *)
(*       cells |-> plain-storage MMIO cells written so far (offset -> value),                              *)
(*       ev |-> ordered callback/event log ]                                                               *)
EXTENDS TeakCore

TM == INSTANCE TimerOps WITH B <- 65536, FixedSkipZero <- TRUE
\* audio ports and mailboxes: the operators of the component modules (their own state machines are not used)
BT == INSTANCE Btdmp WITH Cap <- 16, TW <- 65536, ResetPeriod <- 4096, FixedSkipOverrun <- TRUE, Vals <- {}, Periods <- {},
                          Clocks <- {}, K <- 0, G <- 0, PhaseKept <- FALSE, s <- 0, ev <- 0, outc <- 0, gin <- 0, gout <- 0, gpad <- 0
AP == INSTANCE Apbp WITH NCh <- 3, Data <- 0 .. 65535, SemW <- 16, FixedMask <- TRUE

IrqTimer0 == 10  IrqTimer1 == 9  IrqBtdmp == 11  IrqApbp == 14  IrqDma == 15

-----------------------------------------------------------------------------
(* ICU (icu.h)                                                                                            *)
IcuReset == [req |-> 0, en |-> <<0, 0, 0>>, ven |-> 0, vlo |-> [i \in 1 .. 16 |-> 0], vhi |-> [i \in 1 .. 16 |-> 0],
             vctx |-> [i \in 1 .. 16 |-> 0]]

\* ICU::Trigger(bits): request |= bits; for every set irq in ascending order: signal each core line whose
\* enable word has the bit, and the vectored line (address/context of that irq; a later irq overrides)
RECURSIVE TriggerFrom(_, _, _)
TriggerFrom(y, bits, irq) ==
    IF irq > 15 THEN y
    ELSE IF Bit(bits, irq) = 0 THEN TriggerFrom(y, bits, irq + 1)
    ELSE LET L(k) == IF Bit(y.icu.en[k], irq) = 1 THEN 1 ELSE y.c.lat[k]
             lat1 == <<L(1), L(2), L(3), y.c.lat[4]>>
             vec  == Bit(y.icu.ven, irq) = 1
             c1   == IF vec
                     THEN [y.c EXCEPT !.lat = [lat1 EXCEPT ![4] = 1],
                                      !.vaddr = y.icu.vlo[irq + 1] + 65536 * y.icu.vhi[irq + 1],
                                      !.vctx = IF y.icu.vctx[irq + 1] # 0 THEN 1 ELSE 0]
                     ELSE [y.c EXCEPT !.lat = lat1]
         IN  TriggerFrom([y EXCEPT !.c = c1], bits, irq + 1)
IcuTrigger(y, bits) == TriggerFrom([y EXCEPT !.icu.req = @ | bits], bits, 0)
IcuAck(y, bits)     == [y EXCEPT !.icu.req = @ - (@ & bits)]

-----------------------------------------------------------------------------
(* MMIO register file as far as the system programs use it (mmio.cpp); every other offset is a plain      *)
(* storage cell, exactly as the default Cell of mmio.cpp                                                  *)
TimerOf(off) == IF off >= 48 THEN 1 ELSE 0                      \* 0x20.. timer0, 0x30.. timer1
TimerReg(off) == off - 32 - 16 * TimerOf(off)
IsTimerOff(off) == off >= 32 /\ off < 64 /\ TimerReg(off) \in {0, 2, 4, 6, 8, 10}
IsIcuOff(off) == off \in {512, 514, 516, 518, 520, 522, 524} \/ (off >= 530 /\ off < 594 /\ off % 2 = 0)
CellVal(y, off) == IF off \in DOMAIN y.cells THEN y.cells[off] ELSE 0
SetCell(y, off, v) == [y EXCEPT !.cells = (off :> v) @@ @]

\* --- memory interface unit (memory_interface.h, MMIO 0x10E-0x11E) ------------------------------------------------
MiuRead(y, off) ==
    LET m == y.c.miu IN
    CASE off = 270 -> m.xp [] off = 272 -> m.yp [] off = 274 -> m.z
      [] off = 276 -> (CellVal(y, 276) & (65535 - 63 - 63 * 256)) + m.xs[1] + 256 * m.ys[1]
      [] off = 278 -> (CellVal(y, 278) & (65535 - 63 - 63 * 256)) + m.xs[2] + 256 * m.ys[2]
      [] off = 282 -> (CellVal(y, 282) & (65535 - 64)) + 64 * m.pm
      [] off = 286 -> m.base
\* (a guest write has already acted on y.c.miu inside the instruction, see TeakMachine!RawWrite; applying it again is
\* idempotent; a host write through MMIOWrite acts here)
MiuWrite(y, off, v) ==
    LET y1 == [y EXCEPT !.c.miu = MiuApply(@, off, v)] IN
    IF off \in {276, 278, 282} THEN SetCell(y1, off, v) ELSE y1

\* --- mailboxes (apbp.cpp, MMIO 0x0C0-0x0D8; wiring of teakra.cpp) -------------------------------------------
IsApbpOff(off) == off \in {192, 194, 196, 198, 200, 202, 204, 206, 208, 210, 212, 214, 216}
\* the host's callbacks as they are invoked, in order (y.ev): integer triples
EvAudio(l, r) == <<0, l, r>>     \* audio callback with one stereo frame (samples as unsigned 16-bit numbers)
EvRecv(c)     == <<1, c, 0>>     \* receive-data handler of reply channel c
EvSem         == <<2, 0, 0>>     \* semaphore handler
Ev(y, e) == [y EXCEPT !.ev = Append(@, e)]
\* an operation on apbp_from_cpu: every handler of it is icu.TriggerSingle(0xE)
RECURSIVE TrigN(_, _)
TrigN(y, n) == IF n = 0 THEN y ELSE TrigN(IcuTrigger(y, 2 ^ IrqApbp), n - 1)
WireFc(y, r) == TrigN([y EXCEPT !.ap.fc = r.s], Len(r.hc))
\* an operation on apbp_from_dsp: its handlers are the host's callbacks (logged as events)
RECURSIVE HostCb(_, _, _)
HostCb(y, hc, j) == IF j > Len(hc) THEN y ELSE HostCb(Ev(y, IF hc[j] = AP!SEMH THEN EvSem ELSE EvRecv(hc[j])), hc, j + 1)
WireFd(y, r) == HostCb([y EXCEPT !.ap.fd = r.s], r.hc, 1)
ApbpCfgMask == 256 + 4096 + 8192
ApbpRead(y, off) ==
    LET fc == y.ap.fc  fd == y.ap.fd IN
    CASE off \in {192, 196, 200} -> fd.dat[(off - 192) \div 4]                      \* reply register: PeekData
      [] off \in {194, 198, 202} -> fc.dat[(off - 194) \div 4]                      \* command register: RecvData (clears ready)
      [] off = 204 -> fd.sem
      [] off = 206 -> fc.msk
      [] off = 208 -> 0
      [] off = 210 -> fc.sem
      [] off = 212 -> (CellVal(y, 212) & (65535 - ApbpCfgMask)) + 256 * fc.dis[0] + 4096 * fc.dis[1] + 8192 * fc.dis[2]    \* dis is 0/1 here: only this register sets it
      [] off = 214 -> (CellVal(y, 214) & (65535 - (32 + 64 + 128 + 256 + 512 + 4096 + 8192)))
                      + 32 * fd.rdy[0] + 64 * fd.rdy[1] + 128 * fd.rdy[2] + 256 * fc.rdy[0] + 512 * fc.sig + 4096 * fc.rdy[1] + 8192 * fc.rdy[2]
      [] off = 216 -> (CellVal(y, 216) & (65535 - (512 + 1024 + 2048 + 4096 + 8192 + 16384 + 32768)))
                      + 512 * fc.sig + 1024 * fd.rdy[0] + 2048 * fd.rdy[1] + 4096 * fd.rdy[2] + 8192 * fc.rdy[0] + 16384 * fc.rdy[1] + 32768 * fc.rdy[2]
ApbpWrite(y, off, v) ==
    CASE off \in {192, 196, 200} -> WireFd(y, AP!SendData(y.ap.fd, (off - 192) \div 4, v))
      [] off \in {194, 198, 202, 210} -> y
      [] off = 204 -> WireFd(y, AP!SetSemaphore(y.ap.fd, v))
      [] off = 206 -> WireFc(y, AP!MaskSemaphore(y.ap.fc, v))
      [] off = 208 -> WireFc(y, AP!ClearSemaphore(y.ap.fc, v))
      [] off = 212 -> SetCell([y EXCEPT !.ap.fc.dis = (0 :> Bit(v, 8)) @@ (1 :> Bit(v, 12)) @@ (2 :> Bit(v, 13))], 212, v)
      [] off \in {214, 216} -> SetCell(y, off, v)
\* reading a command register is a receive
ApbpReadEffect(y, off) == IF off \in {194, 198, 202} THEN [y EXCEPT !.ap.fc = AP!RecvData(y.ap.fc, (off - 194) \div 4).s] ELSE y

\* --- audio ports (btdmp.cpp, MMIO 0x2A0.. and 0x320..) -------------------------------------------------------
BtOf(off) == IF off >= 800 THEN 1 ELSE 0
BtReg(off) == off - 672 - 128 * BtOf(off)
IsBtdmpOff(off) == off >= 672 /\ off < 928 /\ BtReg(off) \in {2, 30, 34, 38, 42}
BtdmpRead(y, off) ==
    LET b == y.bt[BtOf(off) + 1]  k == BtReg(off) IN
    CASE k = 2 -> b.cc [] k = 30 -> b.en
      [] k = 34 -> (CellVal(y, off) & (65535 - 24)) + 8 * b.fu + 16 * b.em
      [] k = 38 -> CellVal(y, off)
      [] k = 42 -> 0
BtdmpWrite(y, off, v) ==
    LET i == BtOf(off)  b == y.bt[i + 1]  k == BtReg(off) IN
    CASE k = 2 -> [y EXCEPT !.bt[i + 1] = BT!SetClockOp(b, v).s]
      [] k = 30 -> [y EXCEPT !.bt[i + 1] = BT!SetEnableOp(b, v).s]
      [] k = 34 -> SetCell(y, off, v)
      [] k = 38 -> [y EXCEPT !.bt[i + 1] = BT!SendOp(b, v).s]
      [] k = 42 -> [y EXCEPT !.bt[i + 1] = BT!FlushOp(b, v).s]
\* Btdmp::Tick of port i: interrupt -> IRQ 11; the audio callback is installed on port 0 only
RECURSIVE BtEvents(_, _, _, _)
BtEvents(y, i, evs, j) ==
    IF j > Len(evs) THEN y
    ELSE IF evs[j] = BT!IRQ THEN BtEvents(IcuTrigger(y, 2 ^ IrqBtdmp), i, evs, j + 1)
    ELSE BtEvents(IF i = 0 THEN Ev(y, EvAudio(evs[j][2], evs[j][3])) ELSE y, i, evs, j + 1)
TickBtdmp(y, i) == LET r == BT!TickOp(y.bt[i + 1]) IN BtEvents([y EXCEPT !.bt[i + 1] = r.s], i, r.ev, 1)

TimerCfgRead(y, i) ==
    LET t == y.tm[i + 1]  raw == CellVal(y, 32 + 16 * i)
        keep == raw & (65535 - (3 + 28 + 256 + 512 + 1024))     \* bits not overlaid by a getter
    IN  keep + t.sc + 4 * t.m + 256 * t.p + 512 * t.u

MmioRead(y, off) ==
    IF IsTimerOff(off) THEN
        LET i == TimerOf(off)  t == y.tm[i + 1]  k == TimerReg(off) IN
        CASE k = 0 -> TimerCfgRead(y, i)
          [] k = 2 -> 0
          [] k = 4 -> t.s[2]
          [] k = 6 -> t.s[1]
          [] k = 8 -> t.mi[2]
          [] k = 10 -> t.mi[1]
    ELSE IF off = 512 THEN y.icu.req
    ELSE IF off \in {514, 516} THEN 0
    ELSE IF off \in {518, 520, 522} THEN y.icu.en[(off - 518) \div 2 + 1]
    ELSE IF off = 524 THEN y.icu.ven
    ELSE IF off >= 530 /\ off < 594 /\ off % 4 = 2
         THEN LET i == (off - 530) \div 4 + 1  raw == CellVal(y, off)
              IN  (raw & (65535 - 3 - 32768)) + y.icu.vhi[i] + 32768 * y.icu.vctx[i]
    ELSE IF off >= 532 /\ off < 596 /\ off % 4 = 0 THEN y.icu.vlo[(off - 532) \div 4 + 1]
    ELSE IF off = 26 THEN 51458                                  \* chip detect 0xC902
    ELSE IF IsMiuOff(off) THEN MiuRead(y, off)
    ELSE IF IsApbpOff(off) THEN ApbpRead(y, off)
    ELSE IF IsBtdmpOff(off) THEN BtdmpRead(y, off)
    ELSE CellVal(y, off)

\* interrupt of timer i through the ICU
TimerIrq(y, i, n) == IF n = 0 THEN y ELSE IcuTrigger(y, 2 ^ (IF i = 0 THEN IrqTimer0 ELSE IrqTimer1))
ApplyTimer(y, i, res) ==
    LET y1 == [y EXCEPT !.tm[i + 1] = res.t] IN
    IF res.out # "ok" THEN [y1 EXCEPT !.c = Fail(y1.c, res.out)] ELSE TimerIrq(y1, i, res.irq)

MmioWrite(y, off, v) ==
    IF IsTimerOff(off) THEN
        LET i == TimerOf(off)  t == y.tm[i + 1]  k == TimerReg(off) IN
        CASE k = 0 -> \* TIMERx_CFG: slots in declaration order: scale, mode, pause, update_mmio, RES (restart)
                LET t1 == [t EXCEPT !.sc = v % 4, !.m = (v \div 4) % 8, !.p = Bit(v, 8), !.u = Bit(v, 9)]
                    y1 == SetCell([y EXCEPT !.tm[i + 1] = t1], off, v)
                IN  IF Bit(v, 10) = 1 THEN ApplyTimer(y1, i, TM!RestartOp(t1)) ELSE y1
          [] k = 2 -> IF v # 0 THEN ApplyTimer(y, i, TM!TickEventOp(t)) ELSE y
          [] k = 4 -> [y EXCEPT !.tm[i + 1].s = <<t.s[1], v>>]
          [] k = 6 -> [y EXCEPT !.tm[i + 1].s = <<v, t.s[2]>>]
          [] k = 8 -> [y EXCEPT !.tm[i + 1].mi = <<t.mi[1], v>>]
          [] k = 10 -> [y EXCEPT !.tm[i + 1].mi = <<v, t.mi[2]>>]
    ELSE IF off = 512 THEN y                                      \* NoSet
    ELSE IF off = 514 THEN IcuAck(y, v)
    ELSE IF off = 516 THEN IcuTrigger(y, v)
    ELSE IF off \in {518, 520, 522} THEN [y EXCEPT !.icu.en[(off - 518) \div 2 + 1] = v]
    ELSE IF off = 524 THEN [y EXCEPT !.icu.ven = v]
    ELSE IF off >= 530 /\ off < 594 /\ off % 4 = 2
         THEN LET i == (off - 530) \div 4 + 1
              IN  SetCell([y EXCEPT !.icu.vhi[i] = v % 4, !.icu.vctx[i] = Bit(v, 15)], off, v)
    ELSE IF off >= 532 /\ off < 596 /\ off % 4 = 0 THEN [y EXCEPT !.icu.vlo[(off - 532) \div 4 + 1] = v]
    ELSE IF off = 26 THEN y
    ELSE IF IsMiuOff(off) THEN MiuWrite(y, off, v)
    ELSE IF IsApbpOff(off) THEN ApbpWrite(y, off, v)
    ELSE IF IsBtdmpOff(off) THEN BtdmpWrite(y, off, v)
    ELSE SetCell(y, off, v)

\* offsets bound by mmio.cpp to peripherals this module does not (yet) model: a program touching one makes
\* the specification decline the trace (outcome "unmodelled"); it never guesses.  Everything else is a timer
\* or ICU register (above), the chip-detect constant, or a plain storage cell.
UnmodelledOff(off) == \/ off \in 224 .. 243            \* AHBM
                   \/ off \in {388, 396} \/ off \in 446 .. 479      \* DMA
Modelled(off) == ~ UnmodelledOff(off)

-----------------------------------------------------------------------------
(* one emulated cycle                                                                                      *)
MmioRange == MmioBase .. MmioBase + 2047

\* the MMIO writes (and side-effecting reads) of the executed instruction, in access order
RECURSIVE ApplyMmio(_, _, _)
ApplyMmio(y, acc, j) ==
    IF j > Len(acc) THEN y
    ELSE LET a == acc[j] IN
         IF a[1] \in MmioRange
         THEN (IF ~ Modelled(a[1] - MmioBase) THEN [y EXCEPT !.c = Fail(y.c, "unmodelled")]
               ELSE IF a[2] = 1 THEN ApplyMmio(MmioWrite(y, a[1] - MmioBase, a[3]), acc, j + 1)
               ELSE ApplyMmio(ApbpReadEffect(y, a[1] - MmioBase), acc, j + 1))
         ELSE ApplyMmio(y, acc, j + 1)

\* the core state for this cycle: MMIO reads return what each register reads now (a lazily evaluated,
\* never nested function: only the registers actually read are computed); the access list starts empty
CoreWithMmio(y) == [y.c EXCEPT !.io = [o \in 0 .. 2047 |-> MmioRead(y, o)], !.acc = <<>>]
EmptyIo == [o \in {} |-> 0]
StripMmio(c) == [c EXCEPT !.io = EmptyIo]

TickTimers(y) ==    \* CoreTiming::Tick in registration order: timer0, timer1, btdmp0, btdmp1
    LET y1 == ApplyTimer(y, 0, TM!TickOp(y.tm[1]))
        y2 == ApplyTimer(y1, 1, TM!TickOp(y1.tm[2]))
    IN  IF y2.c.out # "ok" THEN y2 ELSE TickBtdmp(TickBtdmp(y2, 0), 1)

Cycle(y) ==
    LET c1 == CoreCycle(CoreWithMmio(y))
        y1 == ApplyMmio([y EXCEPT !.c = StripMmio(c1)], c1.acc, 1)
    IN  IF y1.c.out # "ok" THEN y1 ELSE TickTimers(y1)

-----------------------------------------------------------------------------
ApFresh == [rdy |-> (0 :> 0) @@ (1 :> 0) @@ (2 :> 0), dat |-> (0 :> 0) @@ (1 :> 0) @@ (2 :> 0), dis |-> (0 :> 0) @@ (1 :> 0) @@ (2 :> 0),
            sem |-> 0, msk |-> 0, sig |-> 0]
ApReset == [fc |-> ApFresh, fd |-> ApFresh]

\* host API calls (teakra.cpp), made between Run calls: [y, ret].  The memory accessors go through the same
\* MemoryInterface as the guest: MMIO-window accesses have the register's effect, asserts included.
HostMem(y, c1) == ApplyMmio([y EXCEPT !.c = StripMmio(c1)], c1.acc, 1)
ReadVal(c1) == IF c1.out = "ok" /\ c1.acc # <<>> THEN c1.acc[Len(c1.acc)][3] ELSE 0
A32(a) == DataBase + (a % 131072)                 \* DataReadA32 / DataWriteA32: (address & 0x1FFFF) + 0x20000
HostMmio(y, off) == IF Modelled(off) THEN y ELSE [y EXCEPT !.c = Fail(y.c, "unmodelled")]
HostCall(y, op, a1, a2) ==
    CASE op = "SendData"      -> [y |-> WireFc(y, AP!SendData(y.ap.fc, a1, a2)), ret |-> 0]
      [] op = "RecvData"      -> [y |-> [y EXCEPT !.ap.fd = AP!RecvData(y.ap.fd, a1).s], ret |-> y.ap.fd.dat[a1]]
      [] op = "PeekRecvData"  -> [y |-> y, ret |-> y.ap.fd.dat[a1]]
      [] op = "RecvDataIsReady" -> [y |-> y, ret |-> y.ap.fd.rdy[a1]]
      [] op = "SendDataIsEmpty" -> [y |-> y, ret |-> 1 - y.ap.fc.rdy[a1]]
      [] op = "SetSemaphore"  -> [y |-> WireFc(y, AP!SetSemaphore(y.ap.fc, a1)), ret |-> 0]
      [] op = "ClearSemaphore" -> [y |-> [y EXCEPT !.ap.fd = AP!ClearSemaphore(y.ap.fd, a1).s], ret |-> 0]
      [] op = "MaskSemaphore" -> [y |-> WireFd(y, AP!MaskSemaphore(y.ap.fd, a1)), ret |-> 0]
      [] op = "GetSemaphore"  -> [y |-> y, ret |-> y.ap.fd.sem]
      [] op = "DataWrite"     -> [y |-> HostMem(y, DWrite(CoreWithMmio(y), a1, a2)), ret |-> 0]
      [] op = "DataRead"      -> LET c1 == DRead(CoreWithMmio(y), a1) IN [y |-> HostMem(y, c1), ret |-> ReadVal(c1)]
      [] op = "DataWriteBypass" -> [y |-> HostMem(y, IF DataPage(y.c, a1) >= 2 THEN Fail(y.c, "assert")
                                                     ELSE RawWrite(CoreWithMmio(y), DataBase + a1 + 65536 * DataPage(y.c, a1), a2)), ret |-> 0]
      [] op = "DataReadBypass" -> LET c1 == IF DataPage(y.c, a1) >= 2 THEN Fail(y.c, "assert")
                                            ELSE RawRead(CoreWithMmio(y), DataBase + a1 + 65536 * DataPage(y.c, a1))
                                  IN  [y |-> HostMem(y, c1), ret |-> ReadVal(c1)]
      [] op = "DataWriteA32"  -> [y |-> HostMem(y, RawWrite(CoreWithMmio(y), A32(a1), a2)), ret |-> 0]
      [] op = "DataReadA32"   -> LET c1 == RawRead(CoreWithMmio(y), A32(a1)) IN [y |-> HostMem(y, c1), ret |-> ReadVal(c1)]
      [] op = "ProgramWrite"  -> [y |-> HostMem(y, PWrite(CoreWithMmio(y), a1, a2)), ret |-> 0]
      [] op = "ProgramRead"   -> LET c1 == PRead(CoreWithMmio(y), a1) IN [y |-> HostMem(y, c1), ret |-> ReadVal(c1)]
      [] op = "MMIOWrite"     -> [y |-> MmioWrite(HostMmio(y, a1 % 2048), a1 % 2048, a2), ret |-> 0]
      [] op = "MMIORead"      -> [y |-> ApbpReadEffect(HostMmio(y, a1 % 2048), a1 % 2048), ret |-> MmioRead(y, a1 % 2048)]

SysReset(y) ==       \* Teakra::Impl::Reset: memory zeroed, MIU, APBP, timers, AHBM, DMA, BTDMP, processor registers
    [y EXCEPT !.c.mem = [ph \in {} |-> 0], !.c.io = EmptyIo, !.c.miu = MiuLive, !.tm = <<TM!ResetState, TM!ResetState>>,
              !.bt = <<BT!ResetState, BT!ResetState>>, !.ap = ApReset]
=============================================================================
