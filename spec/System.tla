------------------------------- MODULE System -------------------------------
(* The composed machine as Teakra::Impl wires it (teakra.cpp): core + ICU + two timers + (audio port,    *)
(* mailboxes: added through the same MMIO table) behind the MMIO window, one operator per thing that     *)
(* happens: Cycle (one emulated cycle: CoreCycle, then the MMIO effects of the instruction in access      *)
(* order, then the peripheral tick in registration order timer0, timer1, btdmp0, btdmp1), the skip logic  *)
(* of Interpreter::Run exactly as coded (RunAsCoded) next to the plain n-fold Cycle, Reset, host calls.   *)
(*                                                                                                        *)
(* y = [ c  |-> core state (TeakMachine), tm |-> <<timer0, timer1>> (TimerOps records),                    *)
(*       icu |-> [req, en (3 words), ven, vlo, vhi, vctx (16 each)],                                       *)
(*       cells |-> plain-storage MMIO cells written so far (offset -> value),                              *)
(*       ev |-> ordered callback/event log ]                                                               *)
EXTENDS TeakCore

TM == INSTANCE TimerOps WITH B <- 65536, FixedSkipZero <- TRUE

IrqTimer0 == 10  IrqTimer1 == 9  IrqBtdmp == 11  IrqApbp == 14  IrqDma == 15

-----------------------------------------------------------------------------
(* ICU (icu.h)                                                                                            *)
IcuReset == [req |-> 0, en |-> <<0, 0, 0>>, ven |-> 0, vlo |-> [i \in 1 .. 16 |-> 0], vhi |-> [i \in 1 .. 16 |-> 0],
             vctx |-> [i \in 1 .. 16 |-> 0]]

\* ICU::Trigger(bits): request |= bits; for every set irq in ascending order: signal each core line whose
\* enable word has the bit, and the vectored line (address/context of that irq; a later irq overrides)
RECURSIVE TriggerFrom(_, _, _)
TriggerFrom(y, bits, irq) ==
    IF irq > 15 THEN y
    ELSE IF Bit(bits, irq) = 0 THEN TriggerFrom(y, bits, irq + 1)
    ELSE LET L(k) == IF Bit(y.icu.en[k], irq) = 1 THEN 1 ELSE y.c.lat[k]
             lat1 == <<L(1), L(2), L(3), y.c.lat[4]>>
             vec  == Bit(y.icu.ven, irq) = 1
             c1   == IF vec
                     THEN [y.c EXCEPT !.lat = [lat1 EXCEPT ![4] = 1],
                                      !.vaddr = y.icu.vlo[irq + 1] + 65536 * y.icu.vhi[irq + 1],
                                      !.vctx = IF y.icu.vctx[irq + 1] # 0 THEN 1 ELSE 0]
                     ELSE [y.c EXCEPT !.lat = lat1]
         IN  TriggerFrom([y EXCEPT !.c = c1], bits, irq + 1)
IcuTrigger(y, bits) == TriggerFrom([y EXCEPT !.icu.req = @ | bits], bits, 0)
IcuAck(y, bits)     == [y EXCEPT !.icu.req = @ - (@ & bits)]

-----------------------------------------------------------------------------
(* MMIO register file as far as the system programs use it (mmio.cpp); every other offset is a plain      *)
(* storage cell, exactly as the default Cell of mmio.cpp                                                  *)
TimerOf(off) == IF off >= 48 THEN 1 ELSE 0                      \* 0x20.. timer0, 0x30.. timer1
TimerReg(off) == off - 32 - 16 * TimerOf(off)
IsTimerOff(off) == off >= 32 /\ off < 64 /\ TimerReg(off) \in {0, 2, 4, 6, 8, 10}
IsIcuOff(off) == off \in {512, 514, 516, 518, 520, 522, 524} \/ (off >= 530 /\ off < 594 /\ off % 2 = 0)
CellVal(y, off) == IF off \in DOMAIN y.cells THEN y.cells[off] ELSE 0
SetCell(y, off, v) == [y EXCEPT !.cells = (off :> v) @@ @]

TimerCfgRead(y, i) ==
    LET t == y.tm[i + 1]  raw == CellVal(y, 32 + 16 * i)
        keep == raw & (65535 - (3 + 28 + 256 + 512 + 1024))     \* bits not overlaid by a getter
    IN  keep + t.sc + 4 * t.m + 256 * t.p + 512 * t.u

MmioRead(y, off) ==
    IF IsTimerOff(off) THEN
        LET i == TimerOf(off)  t == y.tm[i + 1]  k == TimerReg(off) IN
        CASE k = 0 -> TimerCfgRead(y, i)
          [] k = 2 -> 0
          [] k = 4 -> t.s[2]
          [] k = 6 -> t.s[1]
          [] k = 8 -> t.mi[2]
          [] k = 10 -> t.mi[1]
    ELSE IF off = 512 THEN y.icu.req
    ELSE IF off \in {514, 516} THEN 0
    ELSE IF off \in {518, 520, 522} THEN y.icu.en[(off - 518) \div 2 + 1]
    ELSE IF off = 524 THEN y.icu.ven
    ELSE IF off >= 530 /\ off < 594 /\ off % 4 = 2
         THEN LET i == (off - 530) \div 4 + 1  raw == CellVal(y, off)
              IN  (raw & (65535 - 3 - 32768)) + y.icu.vhi[i] + 32768 * y.icu.vctx[i]
    ELSE IF off >= 532 /\ off < 596 /\ off % 4 = 0 THEN y.icu.vlo[(off - 532) \div 4 + 1]
    ELSE IF off = 26 THEN 51458                                  \* chip detect 0xC902
    ELSE CellVal(y, off)

\* interrupt of timer i through the ICU
TimerIrq(y, i, n) == IF n = 0 THEN y ELSE IcuTrigger(y, 2 ^ (IF i = 0 THEN IrqTimer0 ELSE IrqTimer1))
ApplyTimer(y, i, res) ==
    LET y1 == [y EXCEPT !.tm[i + 1] = res.t] IN
    IF res.out # "ok" THEN [y1 EXCEPT !.c = Fail(y1.c, res.out)] ELSE TimerIrq(y1, i, res.irq)

MmioWrite(y, off, v) ==
    IF IsTimerOff(off) THEN
        LET i == TimerOf(off)  t == y.tm[i + 1]  k == TimerReg(off) IN
        CASE k = 0 -> \* TIMERx_CFG: slots in declaration order: scale, mode, pause, update_mmio, RES (restart)
                LET t1 == [t EXCEPT !.sc = v % 4, !.m = (v \div 4) % 8, !.p = Bit(v, 8), !.u = Bit(v, 9)]
                    y1 == SetCell([y EXCEPT !.tm[i + 1] = t1], off, v)
                IN  IF Bit(v, 10) = 1 THEN ApplyTimer(y1, i, TM!RestartOp(t1)) ELSE y1
          [] k = 2 -> IF v # 0 THEN ApplyTimer(y, i, TM!TickEventOp(t)) ELSE y
          [] k = 4 -> [y EXCEPT !.tm[i + 1].s = <<t.s[1], v>>]
          [] k = 6 -> [y EXCEPT !.tm[i + 1].s = <<v, t.s[2]>>]
          [] k = 8 -> [y EXCEPT !.tm[i + 1].mi = <<t.mi[1], v>>]
          [] k = 10 -> [y EXCEPT !.tm[i + 1].mi = <<v, t.mi[2]>>]
    ELSE IF off = 512 THEN y                                      \* NoSet
    ELSE IF off = 514 THEN IcuAck(y, v)
    ELSE IF off = 516 THEN IcuTrigger(y, v)
    ELSE IF off \in {518, 520, 522} THEN [y EXCEPT !.icu.en[(off - 518) \div 2 + 1] = v]
    ELSE IF off = 524 THEN [y EXCEPT !.icu.ven = v]
    ELSE IF off >= 530 /\ off < 594 /\ off % 4 = 2
         THEN LET i == (off - 530) \div 4 + 1
              IN  SetCell([y EXCEPT !.icu.vhi[i] = v % 4, !.icu.vctx[i] = Bit(v, 15)], off, v)
    ELSE IF off >= 532 /\ off < 596 /\ off % 4 = 0 THEN [y EXCEPT !.icu.vlo[(off - 532) \div 4 + 1] = v]
    ELSE IF off = 26 THEN y
    ELSE SetCell(y, off, v)

\* offsets bound by mmio.cpp to peripherals this module does not (yet) model: a program touching one makes
\* the specification decline the trace (outcome "unmodelled"); it never guesses.  Everything else is a timer
\* or ICU register (above), the chip-detect constant, or a plain storage cell.
UnmodelledOff(off) == \/ off \in 192 .. 217            \* APBP
                   \/ off \in 224 .. 243            \* AHBM
                   \/ off \in {270, 272, 274, 276, 278, 282, 286}   \* MIU
                   \/ off \in {388, 396} \/ off \in 446 .. 479      \* DMA
                   \/ off \in 674 .. 843            \* BTDMP
Modelled(off) == ~ UnmodelledOff(off)

-----------------------------------------------------------------------------
(* one emulated cycle                                                                                      *)
MmioRange == MmioBase .. MmioBase + 2047

\* the MMIO writes (and side-effecting reads) of the executed instruction, in access order
RECURSIVE ApplyMmio(_, _, _)
ApplyMmio(y, acc, j) ==
    IF j > Len(acc) THEN y
    ELSE LET a == acc[j] IN
         IF a[1] \in MmioRange
         THEN (IF ~ Modelled(a[1] - MmioBase) THEN [y EXCEPT !.c = Fail(y.c, "unmodelled")]
               ELSE IF a[2] = 1 THEN ApplyMmio(MmioWrite(y, a[1] - MmioBase, a[3]), acc, j + 1)
               ELSE ApplyMmio(y, acc, j + 1))
         ELSE ApplyMmio(y, acc, j + 1)

\* the core state for this cycle: MMIO reads return what each register reads now (a lazily evaluated,
\* never nested function: only the registers actually read are computed); the access list starts empty
CoreWithMmio(y) == [y.c EXCEPT !.io = [o \in 0 .. 2047 |-> MmioRead(y, o)], !.acc = <<>>]
EmptyIo == [o \in {} |-> 0]
StripMmio(c) == [c EXCEPT !.io = EmptyIo]

TickTimers(y) ==
    LET y1 == ApplyTimer(y, 0, TM!TickOp(y.tm[1])) IN ApplyTimer(y1, 1, TM!TickOp(y1.tm[2]))

Cycle(y) ==
    LET c1 == CoreCycle(CoreWithMmio(y))
        y1 == ApplyMmio([y EXCEPT !.c = StripMmio(c1)], c1.acc, 1)
    IN  IF y1.c.out # "ok" THEN y1 ELSE TickTimers(y1)

-----------------------------------------------------------------------------
(* Interpreter::Run as coded: idle skip through CoreTiming::Skip                                           *)
TimerHorizon(t) == TM!Horizon(t)                       \* a wide value, INF = <<65536, 0>>
WMinH(a, b) == IF TM!WLeq(a, b) THEN a ELSE b
\* CoreTiming::Skip(maximum): ticks = min(maximum, horizons); every component skips that many ticks
SkipAll(y, maxk) ==       \* maxk: wide value
    LET k == WMinH(maxk, WMinH(TimerHorizon(y.tm[1]), TimerHorizon(y.tm[2])))
        r0 == TM!SkipOp(y.tm[1], k)  r1 == TM!SkipOp(y.tm[2], k)
    IN  [k |-> k, y |-> [y EXCEPT !.tm = <<r0.t, r1.t>>]]

SysReset(y) ==       \* Teakra::Impl::Reset: memory zeroed, MIU, APBP, timers, AHBM, DMA, BTDMP, processor registers
    [y EXCEPT !.c.mem = [ph \in {} |-> 0], !.c.io = EmptyIo, !.c.miu = [base |-> 32768, z |-> 0], !.tm = <<TM!ResetState, TM!ResetState>>]
=============================================================================
