\* C06 design model with the audio port in every state (Btdmp::GetMaxSkip / Skip inside CoreTiming::Skip)
CONSTANTS TB = 2  N = 5  FixPending = TRUE  FixSkipZero = TRUE  Family = "audio"  FixAudioSkip = TRUE  GuardSeesVectored = TRUE
INIT Init
NEXT Next
INVARIANT SlicingInvariant
CHECK_DEADLOCK FALSE
