---------------------------- MODULE TimerIndSame ----------------------------
(* The annotated operators of TimerInd.tla (proved by Apalache at B = 65536) ARE the TimerOps operators that  *)
(* TimerTrace binds to the code: compared by TLC for all timer states and skip amounts at a small base.        *)
EXTENDS TimerOps
I == INSTANCE TimerInd WITH B <- B, vt <- ResetState, vk <- WZero
VARIABLE vT
Init == vT \in TimerState
Next == UNCHANGED vT
Same ==
    /\ I!TickOp(vT) = TickOp(vT) /\ I!Horizon(vT) = Horizon(vT) /\ I!RestartOp(vT) = RestartOp(vT)
    /\ \A k \in WideSet : I!SkipOp(vT, k) = SkipOp(vT, k) /\ I!WInc(k) = WInc(k) /\ (I!WLt(k, vT.c) <=> WLt(k, vT.c))
=============================================================================
