----------------------------- MODULE ApbpEdges -----------------------------
(* spec -> impl: while TLC explores the exhaustive model, every transition it *)
(* generates (source state, call, arguments, expected return value, expected  *)
(* handler invocations, expected target state) is printed as one flat line;   *)
(* tools/props/c14.py collects them and harness/drivers/apbp_rec.cpp          *)
(* (--mode replay) seeds a real Teakra to the source state, makes the call    *)
(* and compares everything.  Used as an ACTION_CONSTRAINT that is always TRUE.*)
EXTENDS ApbpSys

PerChT(f)  == [i \in 1..NCh |-> f[i - 1]]
FlatA(s)   == PerChT(s.rdy) \o PerChT(s.dat) \o PerChT(s.dis) \o <<s.sem, s.msk, s.sig>>
FlatY(s)   == FlatA(s.fc) \o FlatA(s.fd) \o <<s.icu, s.s4>>
RECURSIVE FlatHc(_)
FlatHc(hc) == IF hc = <<>> THEN <<>> ELSE <<Head(hc).h, Head(hc).a, Head(hc).b>> \o FlatHc(Tail(hc))

EdgeOut == PrintT(ToString(<<"EDGE", ev'.e, ev'.c, ev'.v, ev'.ret>> \o FlatY(y) \o FlatY(y')
                            \o <<Len(ev'.hc)>> \o FlatHc(ev'.hc)))
=============================================================================
