---- MODULE MC_Reset ----
EXTENDS ResetModel
\* Teakra::Impl::Reset at the pin
PinnedResetSet == {"memory", "miu", "apbp", "timers", "ahbm", "dma", "btdmp", "registers"}
\* after the fix: commits in /repo (ICU, channel interrupt-disable bit, interpreter latches, shadow-bank initialisers)
CurrentResetSet == PinnedResetSet \cup {"icu", "apbp_irq_disable", "interrupt_latches", "ar_arp_shadows"}
\* what C17 demands
FullResetSet == Components
====
