------------------------------ MODULE BtdmpInd ------------------------------
(* C16 at FULL width (16-bit phase and period, capacity 16), discharged symbolically by Apalache (SMT):     *)
(* the induction step of "Skip(k) = Tick^k within the horizon" on the LENGTH abstraction of the port:        *)
(* queue length, phase, period, enable, flags, with the number of frames and interrupts a call produces.     *)
(* Which words sit in which frame is decided by the order of the pops alone (two per frame, oldest first,    *)
(* the same in Tick and Skip) and is checked on real sequences by TLC in MC_Btdmp*.cfg (SkipIsTicks);        *)
(* BtdmpIndSame.tla lets TLC check, for every concrete port state at the scaled constants, that the          *)
(* operators below ARE the length abstraction of Btdmp.tla's TickOp / SkipOp / Horizon.                      *)
(*   StepLemma: for every abstract state and every k < Horizon: Skip(k) and Skip(k+1) succeed, the Tick after *)
(*   Skip(k) raises no interrupt, Skip(k+1) leaves the state of Tick(Skip(k)) and has produced the frames of  *)
(*   Skip(k) plus those of that Tick.  ZeroLemma: Skip(0) changes nothing.  HorizonLemma: when the horizon is *)
(*   finite and the period positive, the tick after Skip(horizon) empties the queue and interrupts (with period *)
(*   0 every tick transmits and the reported horizon, 0, is merely safe).  IndLemma: the facts about          *)
(*   reachable states the other lemmas assume (exact flags, phase below 65535) are inductive.                *)
EXTENDS Integers

CONSTANTS
    \* @type: Int;
    Cap,
    \* @type: Int;
    TW,
    \* @type: Int;
    KMax

\* @typeAlias: port = { n: Int, tm: Int, pd: Int, en: Int, em: Int, fu: Int };
\* @typeAlias: res = { s: $port, fr: Int, irq: Int, out: Str };
BtdmpInd_aliases == TRUE

VARIABLES
    \* @type: $port;
    vs,
    \* @type: Int;
    vk

INF == 2147483647

\* @type: ($port, Int, Int) => $res;
Ok(s, fr, irq) == [s |-> s, fr |-> fr, irq |-> irq, out |-> "ok"]

\* one turn of the pop loop of Tick on the length
\* @type: ($port) => $res;
PopTick(s) ==
    IF s.n = 0 THEN Ok(s, 0, 0)
    ELSE LET e == IF s.n = 1 THEN 1 ELSE 0
         IN  Ok([s EXCEPT !.n = s.n - 1, !.em = e, !.fu = 0], 0, e)

\* @type: ($port) => $res;
TickOp(s) ==
    IF s.en = 0 THEN Ok(s, 0, 0)
    ELSE LET t1 == (s.tm + 1) % TW IN
         IF t1 >= s.pd
         THEN LET a == PopTick([s EXCEPT !.tm = 0])
                  b == PopTick(a.s)
              IN  Ok(b.s, 1, a.irq + b.irq)
         ELSE Ok([s EXCEPT !.tm = t1], 0, 0)

\* @type: ($port) => Int;
Horizon(s) ==
    IF s.en = 0 \/ s.n = 0 THEN INF
    ELSE (IF s.tm < s.pd THEN s.pd - s.tm - 1 ELSE 0) + (((s.n + 1) \div 2) - 1) * s.pd

\* c turns of Skip's loop (two pops each, ASSERT(!queue.empty()) after each pop of a non-empty queue):
\* an empty queue stays empty and every turn succeeds; otherwise all 2c pops succeed iff at least one word
\* is left afterwards, and the first pop clears the full flag
\* @type: ($port, Int) => $res;
SkipLoop(s, c) ==
    IF c = 0 \/ s.n = 0 THEN Ok(s, c, 0)
    ELSE IF s.n - 2 * c >= 1 THEN Ok([s EXCEPT !.n = s.n - 2 * c, !.fu = 0], c, 0)
    ELSE [s |-> s, fr |-> 0, irq |-> 0, out |-> "assert"]

\* Btdmp::Skip as repaired (fix 6d66ce7)
\* @type: ($port, Int) => $res;
SkipOp(s, k) ==
    IF s.en = 0 THEN Ok(s, 0, 0)
    ELSE IF k = 0 THEN Ok(s, 0, 0)
    ELSE IF s.tm >= s.pd
         THEN LET cyc == 1 + (IF s.pd = 0 THEN k - 1 ELSE (k - 1) \div s.pd)
                  t1  == IF s.pd = 0 THEN 0 ELSE (k - 1) % s.pd
              IN  SkipLoop([s EXCEPT !.tm = t1], cyc)
    ELSE LET fut == s.tm + k
         IN  SkipLoop([s EXCEPT !.tm = fut % s.pd], fut \div s.pd)

\* Btdmp::Send, Btdmp::SetTransmitFlush on the length
\* @type: ($port) => $res;
SendOp(s) ==
    IF s.n = Cap THEN Ok(s, 0, 0)
    ELSE Ok([s EXCEPT !.n = s.n + 1, !.em = 0, !.fu = IF s.n + 1 = Cap THEN 1 ELSE 0], 0, 0)
\* @type: ($port) => $res;
FlushOp(s) == Ok([s EXCEPT !.n = 0, !.em = 1, !.fu = 0], 0, 0)

\* what every reachable port state satisfies (inductive, IndLemma): exact flags, phase below the largest period
\* @type: ($port) => Bool;
Inv(s) == /\ s.n \in 0 .. Cap /\ s.tm \in 0 .. TW - 2 /\ s.pd \in 0 .. TW - 1
          /\ (s.em = 1 <=> s.n = 0) /\ (s.fu = 1 <=> s.n = Cap) /\ s.em \in 0 .. 1 /\ s.fu \in 0 .. 1

Init ==
    \E n \in 0 .. Cap, tm \in 0 .. TW - 1, pd \in 0 .. TW - 1, en \in 0 .. 1, em \in 0 .. 1, fu \in 0 .. 1, k \in 0 .. KMax :
        /\ vs = [n |-> n, tm |-> tm, pd |-> pd, en |-> en, em |-> em, fu |-> fu]
        /\ vk = k
Next == UNCHANGED <<vs, vk>>

\* Inv holds after Reset and is kept by every call (Skip: within the horizon, as CoreTiming calls it);
\* the period setter may store any 16-bit value, enable and clock config do not take part
IndLemma ==
    Inv(vs) =>
        /\ Inv(SendOp(vs).s) /\ Inv(FlushOp(vs).s) /\ Inv(TickOp(vs).s)
        /\ (vk <= Horizon(vs) => Inv(SkipOp(vs, vk).s))
        /\ Inv([n |-> 0, tm |-> 0, pd |-> 4096, en |-> 0, em |-> 1, fu |-> 0])

StepLemma ==
    (Inv(vs) /\ vk < Horizon(vs)) =>
        LET a == SkipOp(vs, vk)
            b == SkipOp(vs, vk + 1)
            t == TickOp(a.s)
        IN  /\ a.out = "ok" /\ b.out = "ok"
            /\ t.irq = 0
            /\ b.s = t.s
            /\ b.fr = a.fr + t.fr
ZeroLemma == SkipOp(vs, 0) = Ok(vs, 0, 0)
HorizonLemma ==
    (Inv(vs) /\ Horizon(vs) # INF /\ vs.pd > 0) =>
        LET a == SkipOp(vs, Horizon(vs)) IN a.out = "ok" /\ TickOp(a.s).irq >= 1 /\ TickOp(a.s).s.n = 0
Lemmas == IndLemma /\ StepLemma /\ ZeroLemma /\ HorizonLemma
=============================================================================
