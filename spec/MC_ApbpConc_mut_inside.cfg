\* seeded mutation (not the pinned code): DataChannel::Send calls the handler while holding the channel mutex;
\* the re-entrant host callback (RecvData on the same channel) must then show up as a lock cycle.
CONSTANTS
  Chans = {0}
  SemFull = 3
  FixedDisableIrqLock = TRUE
  FixedVectorLock = TRUE
  HandlerInsideLock = TRUE
  VectoredOn = FALSE
  NSend = 1
  NHostOps = 0
  SemVals = {1}
  NDis = 0
  NVec = 0
  NCbSend = 0
  HostKinds = {"Empty", "PollRecv", "SemSet", "SemGet", "SemClr", "SemMask"}
  NDspMask = 0
  TrackLockset = TRUE
SPECIFICATION Spec
INVARIANTS ValuesOK NoDeadlock
CHECK_DEADLOCK TRUE
