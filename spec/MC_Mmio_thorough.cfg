\* C12 thorough: adds every two-hot word and nibble patterns, and the fifth base
CONSTANTS
  FixedChannelSelect = TRUE
  FixedWindowRaw = FALSE
  FixedWatchdogRestart = FALSE
  ValMode = 2
  NBases = 7
SPECIFICATION Spec
INVARIANTS TypeOK ReadBack NonAliasing HiddenFrame ReadPurity PathsAgree ChannelIndependent WindowReachable
CHECK_DEADLOCK FALSE
