\* C14 exhaustive, direction CPU->DSP alone (apbp_from_cpu + ICU bit 14 + Reset) at the design constants
CONSTANTS
  NCh = 2
  Data = {1, 2}
  SemW = 2
  FixedMask = TRUE
    FixedReentry = TRUE
  Junk = {0}
  Sides = {"fc"}
SPECIFICATION Spec
VIEW View
INVARIANTS TypeOK ObjectRulesHold SignalInv SignalStatus SemInterruptRulesHold LastWritten StatusAgree PureReads
PROPERTIES DataInterrupts RecvReturnsLast SemaphoreInterrupts IcuLatch
CHECK_DEADLOCK FALSE
