CONSTANT MaxLen = 5
SPECIFICATION Spec
INVARIANT Inv
CHECK_DEADLOCK FALSE
