------------------------------ MODULE MC_Decode ------------------------------
(* Exhaustive check of the decode clauses of C02 over a range of first words (all 65536 in the     *)
(* registered configurations): at most one row matches, the canonical word (unused bits cleared)    *)
(* selects the same row with the same operands, the table is well formed.  InvSlow additionally     *)
(* re-checks the bucket speed-up against the plain definition and that every setting of the unused  *)
(* bits decodes alike.                                                                              *)
EXTENDS TeakDecode, TLC
CONSTANTS Lo, Hi
ASSUME TableWellFormed
VARIABLE vW
Init == vW \in Lo..Hi
Next == UNCHANGED vW
Inv  == AtMostOneRow(vW) /\ CanonSameRow(vW)
InvSlow == BucketsSound(vW) /\ UnusedIrrelevant(vW)
=============================================================================
