\* Btdmp::Skip as pinned with period 0 allowed: TLC must find that an enabled Skip (any k, also 0,
\* within the reported horizon) divides by zero.
CONSTANTS
  Cap = 4
  TW = 8
  ResetPeriod = 2
  FixedSkipOverrun = FALSE
  Vals = {0, 1}
  Periods = {0, 2}
  Clocks = {0}
  K = 7
  G = 5
  PhaseKept = FALSE
SPECIFICATION Spec
CONSTRAINT HistoryBound
INVARIANTS TypeOK SkipNeverFails
CHECK_DEADLOCK FALSE
