\* Btdmp::Skip as pinned (FixedSkipOverrun = FALSE): what recorded executions are validated against until
\* the repair of Skip for transmit_timer >= transmit_period is in the tree under test
CONSTANTS
  Cap = 16
  TW = 65536
  ResetPeriod = 4096
  FixedSkipOverrun = FALSE
  Vals = {0}
  Periods = {1}
  Clocks = {0}
  K = 12
  G = 0
  PhaseKept = FALSE
SPECIFICATION TraceSpec
INVARIANT Observed
PROPERTY ObservedIrq
POSTCONDITION TraceAccepted
CHECK_DEADLOCK FALSE
