\* C13 quick, one or both sides external (AHBM): six unit x burst settings, sizes 0..3, steps over
\* {1,2,4} (+ mixed), aligned and unaligned bases, word/double-word; B = 8 so that step 4 exists
CONSTANTS
  B = 8
  BB = 64
  HB = 2
  FixedD8 = FALSE
  RealMap = FALSE
  DataHi = 0
  RangeLo = 0
  RangeHi = 0
  SizeSet <- Sizes03
  StepPairs <- ExtPairsQuick
  ModeSet <- ExtModes
  BaseSet <- ExtBasesQuick
  AhbmSet <- AhbmQuick
SPECIFICATION Spec
CONSTRAINT NotD8
INVARIANTS TypeOK CursorsClosedForm Terminates OneIrq NoOob DataCopied FootprintOnlyDst AccessesClosedForm ElementOrder
CHECK_DEADLOCK FALSE
