------------------------------ MODULE ApbpConc ------------------------------
(* C19 -- the host mailbox/semaphore API against a running DSP, as a two-thread model at the    *)
(* LOCK GRANULARITY OF THE CODE (src/apbp.cpp, src/icu.h, src/interpreter.h, src/teakra.cpp,   *)
(* src/mmio.cpp).                                                                               *)
(*                                                                                              *)
(* Threads: "h" (host thread: Teakra::SendData/RecvData/...IsEmpty/...IsReady/SetSemaphore/    *)
(* ClearSemaphore/MaskSemaphore/GetSemaphore) and "d" (the thread inside Teakra::Run: the      *)
(* guest program's MMIO accesses 0x0C0..0x0D8, 0x200..0x20C, the interrupt latches, and -- as  *)
(* in the code -- the HOST CALLBACKS, which DataChannel::Send / Apbp::SetSemaphore of          *)
(* apbp_from_dsp call on the thread that executed the guest's write).                          *)
(*                                                                                              *)
(* Objects: "fc" = Teakra::Impl::apbp_from_cpu, "fd" = apbp_from_dsp, the ICU (request bit 14, *)
(* enable of irq 14 on int0, vectored enable, the vector registers), the interpreter latch     *)
(* interrupt_pending[0] / vinterrupt_pending (std::atomic, written by Signal*, exchanged by the*)
(* run loop at the top of every cycle).                                                        *)
(*                                                                                              *)
(* As-is layer: one MICRO-OPERATION per critical section (acquire; the protected reads/writes; *)
(* release) -- operator Do.  Things the code does in several critical sections are several     *)
(* micro-operations that a thread executes one after the other (its `todo` list), so the other *)
(* thread can run in between exactly where the code has no lock:                               *)
(*   DataChannel::Send      = SendCS ; (handler, AFTER the unlock, unless disable_interrupt)   *)
(*   handler of fc          = ICU::TriggerSingle(14) = Trig  (ICU mutex held across            *)
(*                            on_interrupt, which only stores the atomic latch)                *)
(*   handler of fd          = host data callback (CbData ... CbEnd), may re-enter the API      *)
(*   Apbp::SetSemaphore     = SemSetA (acquire the recursive mutex, or in the bits, compute    *)
(*                            new_signal, master signal) ; handler WITH THE MUTEX HELD ;       *)
(*                            SemSetC (release)                                                *)
(*   Apbp::MaskSemaphore    = SemMaskA (acquire the recursive mutex, store the mask, compute   *)
(*                            new_signal) ; handler WITH THE MUTEX HELD, ON THE CALLING THREAD, *)
(*                            when the signal rises ; SemMaskC (release); master signal in A   *)
(*                            (repaired in bf7856c; before that it only stored the mask)        *)
(*   DataChannel::SetDisableInterrupt = SetDis: takes the channel mutex since 2b7c59d; the      *)
(*                            code as first pinned had NO LOCK there (defect D7, kept behind    *)
(*                            FixedDisableIrqLock = FALSE in MC_ApbpConc_pinned.cfg)            *)
(*   MMIO writes of ICU::vector_*     = SetVec: under the ICU mutex since fix c4156dd (plain    *)
(*                            stores in the pinned code; read by Trigger under the mutex)      *)
(* Deviations of the pinned code are behind CONSTANTs (FixedDisableIrqLock, FixedVectorLock);   *)
(* HandlerInsideLock is a seeded mutation used to show that the deadlock property bites.       *)
(*                                                                                              *)
(* Property layer: ValuesOK (every value received was sent on that channel, reception is        *)
(* order-preserving w.r.t. the linearised send order: overwrites may drop, never reorder or     *)
(* invent), LastSeen (the last value sent is eventually observed), HandlerOwed/TrigDelivers/    *)
(* LatchConsumed/IrqTaken (every send with interrupts enabled is followed by an interrupt       *)
(* delivery), NoDeadlock (no thread ever waits for a lock in a cycle, re-entrant callbacks      *)
(* included), LocksetOK (for every shared non-atomic variable accessed by both threads with at  *)
(* least one write, the intersection of the lock sets held at all its accesses is non-empty).   *)
(*                                                                                              *)
(* HONEST LIMIT: LocksetOK decides the LOCKING DISCIPLINE of the model.  Data-race freedom in   *)
(* the C++ memory-model sense is not decided here; it is OBSERVED by ThreadSanitizer on the     *)
(* executions recorded by harness/drivers/conc_rec.cpp (a report becomes a Race event that no   *)
(* action of ApbpConcTrace explains).                                                           *)
(*                                                                                              *)
(* Configurations: MC_ApbpConc.cfg / _cb / _vec (quick, one channel, repaired locking),         *)
(* MC_ApbpConc_mid / _thorough (thorough tier, two channels), MC_ApbpConc_live / _live_thorough *)
(* (FairSpec, liveness), MC_ApbpConc_pinned (D7: LocksetOK must fail), MC_ApbpConc_pinned_vec   *)
(* (vector registers: LocksetOK must fail), MC_ApbpConc_mut_inside (seeded mutation: NoDeadlock  *)
(* must fail), Trace_ApbpConc.cfg (trace validation through ApbpConcTrace.tla).                 *)
EXTENDS Integers, Sequences, FiniteSets, TLC, Bitwise

CONSTANTS
    Chans,                \* channel indices in use ({0} or {0,1} in MC; {0,1,2} in traces)
    SemFull,              \* all semaphore bits (3 = two bits in MC; 65535 in traces)
    FixedDisableIrqLock,  \* TRUE: SetDisableInterrupt takes the channel mutex (proposed patch); FALSE: as pinned
    FixedVectorLock,      \* TRUE: vector-register writes take the ICU mutex (fix c4156dd); FALSE: as pinned
    HandlerInsideLock,    \* FALSE: as pinned; TRUE: mutation -- DataChannel::Send calls the handler inside the lock
    VectoredOn,           \* irq 14 also enabled for vectored delivery (then Trigger reads the vector registers)
    NSend,                \* host sends per channel (value of the k-th send on a channel is k)
    NHostOps,             \* host polls / semaphore calls besides the sends
    SemVals,              \* semaphore bit patterns the host uses
    NDis,                 \* DSP-side writes of the disable-interrupt bits (0x0D4)
    NVec,                 \* DSP-side writes of the vector register of irq 14
    NCbSend,              \* SendData calls made from inside host data callbacks
    HostKinds,            \* which calls besides SendData the host makes: subset of
                          \* {"Empty", "PollRecv", "SemSet", "SemGet", "SemClr", "SemMask"}
    NDspMask,             \* DSP-side writes of the semaphore mask register 0x0CE (MaskSemaphore on apbp_from_cpu)
    TrackLockset          \* maintain the lockset ghost (TRUE in model checking; FALSE in trace validation, where
                          \* locks are not observable and the ghost would only slow the search down)

Threads == {"h", "d"}
Objs    == {"fc", "fd"}
Other(t) == IF t = "h" THEN "d" ELSE "h"

\* ---- locks and shared variables (names are triples of the same shape so that TLC can compare them)
ChLock(o, c) == <<"ch", o, c>>
SemLock(o)   == <<"sem", o, 0>>
IcuLock      == <<"icu", "icu", 0>>
NoLock       == <<"none", "none", 0>>
Locks == {ChLock(o, c) : o \in Objs, c \in Chans} \cup {SemLock(o) : o \in Objs} \cup {IcuLock}
Recursive(l) == l[1] = "sem"          \* std::recursive_mutex semaphore_mutex; the others are std::mutex

Vars == {<<k, o, c>> : k \in {"ready", "data", "dis"}, o \in Objs, c \in Chans}
        \cup {<<k, o, 0>> : k \in {"sem", "mask", "sig"}, o \in Objs}
        \cup {<<k, "icu", 0>> : k \in {"req", "en", "ven", "vec"}}

Op(k, o, c, v) == [k |-> k, o |-> o, c |-> c, v |-> v]

\* ---- the shared state (one record) --------------------------------------------------------------
InitS(en, ven) ==
    [ready |-> [o \in Objs |-> [c \in Chans |-> FALSE]],
     data  |-> [o \in Objs |-> [c \in Chans |-> 0]],
     dis   |-> [o \in Objs |-> [c \in Chans |-> FALSE]],
     sem   |-> [o \in Objs |-> 0], mask |-> [o \in Objs |-> 0], sig |-> [o \in Objs |-> FALSE],
     req |-> FALSE, en |-> en, ven |-> ven, vec |-> 0,
     latch |-> FALSE, vlatch |-> FALSE,                      \* std::atomic<bool>
     held |-> [l \in Locks |-> "none"],                      \* locks held ACROSS micro-operations
     \* ghosts
     sn  |-> [o \in Objs |-> [c \in Chans |-> 0]],           \* sends linearised so far
     idx |-> [o \in Objs |-> [c \in Chans |-> 0]],           \* which send wrote the current data (0: none)
     rcv |-> [o \in Objs |-> [c \in Chans |-> 0]],           \* which send the receiver saw last
     own |-> [o \in Objs |-> 0],                             \* sends that found interrupts enabled
     dlv |-> [o \in Objs |-> 0],                             \* handler deliveries for those
     ls  |-> [x \in Vars |-> [thr |-> {}, wr |-> FALSE, lk |-> Locks]],
     bad |-> {}]

\* (written without \/ : TLC would split a disjunction inside an action into separate branches)
CanLock(S, t, l) == IF l = NoLock THEN TRUE
                    ELSE S.held[l] \in ({"none"} \cup (IF Recursive(l) THEN {t} ELSE {}))

\* lockset bookkeeping: thread t reads rs and writes ws while holding l (plus whatever it holds across)
Touch(S, t, l, rs, ws) ==
    IF ~ TrackLockset THEN S.ls ELSE
    LET lks == {m \in Locks : S.held[m] = t} \cup (IF l = NoLock THEN {} ELSE {l})
    IN  [x \in Vars |-> IF x \in rs \cup ws
                        THEN [thr |-> S.ls[x].thr \cup {t}, wr |-> S.ls[x].wr \/ x \in ws,
                              lk |-> S.ls[x].lk \cap lks]
                        ELSE S.ls[x]]

R(S, ret, fol) == [S |-> S, ret |-> ret, fol |-> fol]

SemNew(sem, mask) == (sem & (SemFull - (mask & SemFull))) # 0
B2N(b) == IF b THEN 1 ELSE 0

\* ---- which lock a micro-operation takes (rt = the value the thread's previous operation returned)
NeedLock(op, rt) ==
    CASE op.k \in {"SendCS", "RecvCS", "PeekCS", "ReadyCS", "GetDisCS"} -> ChLock(op.o, op.c)
      [] op.k = "IfRecvCS" -> IF rt = 1 THEN ChLock(op.o, op.c) ELSE NoLock
      [] op.k = "SetDis"   -> IF FixedDisableIrqLock THEN ChLock(op.o, op.c) ELSE NoLock
      [] op.k \in {"Trig", "Ack", "GetReq", "SetEn"} -> IcuLock
      [] op.k = "SetVec"   -> IF FixedVectorLock THEN IcuLock ELSE NoLock
      [] op.k \in {"SemSetA", "SemMaskA", "SemClr", "SemClrR", "SemGet", "SemGetMask", "SemSig"} -> SemLock(op.o)
      [] OTHER -> NoLock                      \* SemSetC / SemMaskC / Unlock release; Exch is an atomic

Enabled(S, t, op, rt) == CanLock(S, t, NeedLock(op, rt))

\* ---- the micro-operations ---------------------------------------------------------------------
\* DataChannel::Send, the part inside the lock_guard scope
SendCS(S, t, op, rt) ==
    LET o == op.o  c == op.c  l == ChLock(o, c)
        n == S.sn[o][c] + 1
        call == ~ S.dis[o][c]                       \* `if (disable_interrupt) return;`
        hnd == IF o = "fc" THEN Op("Trig", "fc", c, 1) ELSE Op("CbData", "fd", c, 0)
        S1 == [S EXCEPT !.ready[o][c] = TRUE, !.data[o][c] = op.v, !.sn[o][c] = n, !.idx[o][c] = n,
                        !.own[o] = IF call THEN @ + 1 ELSE @,
                        !.ls = Touch(S, t, l, {<<"dis", o, c>>}, {<<"ready", o, c>>, <<"data", o, c>>}),
                        !.held[l] = IF HandlerInsideLock /\ call THEN t ELSE @]
    IN  R(S1, rt, IF ~ call THEN <<>>
                  ELSE IF HandlerInsideLock THEN <<hnd, Op("Unlock", o, c, 0)>> ELSE <<hnd>>)

\* DataChannel::Recv
RecvCS(S, t, op, rt) ==
    LET o == op.o  c == op.c  l == ChLock(o, c)
        i == S.idx[o][c]
        S1 == [S EXCEPT !.ready[o][c] = FALSE, !.rcv[o][c] = i,
                        !.ls = Touch(S, t, l, {<<"data", o, c>>}, {<<"ready", o, c>>}),
                        !.bad = @ \cup (IF i = 0 THEN {"received a value nobody sent"} ELSE {})
                                  \cup (IF i < S.rcv[o][c] THEN {"received out of send order"} ELSE {})]
    IN  R(S1, S.data[o][c], <<>>)

PeekCS(S, t, op, rt) ==
    R([S EXCEPT !.ls = Touch(S, t, ChLock(op.o, op.c), {<<"data", op.o, op.c>>}, {})], S.data[op.o][op.c], <<>>)
ReadyCS(S, t, op, rt) ==
    R([S EXCEPT !.ls = Touch(S, t, ChLock(op.o, op.c), {<<"ready", op.o, op.c>>}, {})],
      B2N(S.ready[op.o][op.c]), <<>>)
GetDisCS(S, t, op, rt) ==
    R([S EXCEPT !.ls = Touch(S, t, ChLock(op.o, op.c), {<<"dis", op.o, op.c>>}, {})],
      B2N(S.dis[op.o][op.c]), <<>>)
\* DataChannel::SetDisableInterrupt -- `disable_interrupt = v;` (pinned: without the mutex)
SetDis(S, t, op, rt) ==
    R([S EXCEPT !.dis[op.o][op.c] = (op.v # 0),
                !.ls = Touch(S, t, NeedLock(op, rt), {}, {<<"dis", op.o, op.c>>})], rt, <<>>)

\* ICU::Trigger(1 << 14): under the ICU mutex: request |= bit; enabled[0][14] -> on_interrupt(0) =
\* interrupt_pending[0] = true; vectored_enabled[14] -> GetVector(14), vector_context_switch[14] read,
\* on_vectored_interrupt = three atomic stores.   op.v = 1: called as a data handler (counts as delivery)
Trig(S, t, op, rt) ==
    R([S EXCEPT !.req = TRUE, !.latch = IF S.en THEN TRUE ELSE @, !.vlatch = IF S.ven THEN TRUE ELSE @,
                !.dlv["fc"] = IF op.v = 1 THEN @ + 1 ELSE @,
                !.ls = Touch(S, t, IcuLock,
                             {<<"en", "icu", 0>>, <<"ven", "icu", 0>>} \cup (IF S.ven THEN {<<"vec", "icu", 0>>} ELSE {}),
                             {<<"req", "icu", 0>>})], rt, <<>>)
Ack(S, t, op, rt) ==
    R([S EXCEPT !.req = FALSE, !.ls = Touch(S, t, IcuLock, {}, {<<"req", "icu", 0>>})], rt, <<>>)
GetReq(S, t, op, rt) ==
    R([S EXCEPT !.ls = Touch(S, t, IcuLock, {<<"req", "icu", 0>>}, {})], B2N(S.req), <<>>)
SetEn(S, t, op, rt) ==
    R([S EXCEPT !.en = (op.v # 0), !.ls = Touch(S, t, IcuLock, {}, {<<"en", "icu", 0>>})], rt, <<>>)
\* MMIO write of vector_low[14] / vector_high[14] / vector_context_switch[14]: Cell::RefCell, plain store
SetVec(S, t, op, rt) ==
    R([S EXCEPT !.vec = op.v, !.ls = Touch(S, t, NeedLock(op, rt), {}, {<<"vec", "icu", 0>>})], rt, <<>>)

\* Apbp::SetSemaphore, first part: lock (kept), semaphore |= bits, new_signal
SemSetA(S, t, op, rt) ==
    LET o == op.o  l == SemLock(o)
        s == S.sem[o] | (op.v & SemFull)
        new == SemNew(s, S.mask[o])
        hnd == IF o = "fc" THEN Op("Trig", "fc", 0, 0) ELSE Op("CbSem", "fd", 0, 0)
        \* semaphore_master_signal = semaphore_master_signal || new_signal is stored here, BEFORE the handler
        \* (repaired in 7a1934c; before that it was stored in the last part, see ApbpReent.tla)
        S1 == [S EXCEPT !.sem[o] = s, !.sig[o] = @ \/ new, !.held[l] = t,
                        !.ls = Touch(S, t, l, {<<"mask", o, 0>>}, {<<"sem", o, 0>>, <<"sig", o, 0>>})]
    IN  R(S1, rt, (IF new THEN <<hnd>> ELSE <<>>) \o <<Op("SemSetC", o, 0, B2N(new))>>)
\* ... last part: unlock
SemSetC(S, t, op, rt) ==
    LET o == op.o  l == SemLock(o)
    IN  R([S EXCEPT !.held[l] = "none"], rt, <<>>)
SemClrBits(S, t, o, bits, rt) ==
    LET s == S.sem[o] & (SemFull - (bits & SemFull))
    IN  R([S EXCEPT !.sem[o] = s, !.sig[o] = SemNew(s, S.mask[o]),
                    !.ls = Touch(S, t, SemLock(o), {<<"mask", o, 0>>}, {<<"sem", o, 0>>, <<"sig", o, 0>>})], rt, <<>>)
SemGet(S, t, op, rt) ==
    R([S EXCEPT !.ls = Touch(S, t, SemLock(op.o), {<<"sem", op.o, 0>>}, {})], S.sem[op.o], <<>>)
\* Apbp::MaskSemaphore (as repaired by bf7856c), first part: lock (kept), semaphore_mask = bits,
\* new_signal = (semaphore & ~mask) != 0; the handler is called -- on the CALLING thread, mutex held --
\* when new_signal && !semaphore_master_signal
SemMaskA(S, t, op, rt) ==
    LET o == op.o  l == SemLock(o)
        m == op.v & SemFull
        new == SemNew(S.sem[o], m)
        call == new /\ ~ S.sig[o]
        hnd == IF o = "fc" THEN Op("Trig", "fc", 0, 0) ELSE Op("CbSem", "fd", 0, 0)
        \* semaphore_master_signal = new_signal is stored here, BEFORE the handler (7a1934c)
        S1 == [S EXCEPT !.mask[o] = m, !.sig[o] = new, !.held[l] = t,
                        !.ls = Touch(S, t, l, {<<"sem", o, 0>>, <<"sig", o, 0>>}, {<<"mask", o, 0>>, <<"sig", o, 0>>})]
    IN  R(S1, rt, (IF call THEN <<hnd>> ELSE <<>>) \o <<Op("SemMaskC", o, 0, B2N(new))>>)
\* ... last part: unlock
SemMaskC(S, t, op, rt) ==
    LET o == op.o  l == SemLock(o)
    IN  R([S EXCEPT !.held[l] = "none"], rt, <<>>)
SemGetMask(S, t, op, rt) ==
    R([S EXCEPT !.ls = Touch(S, t, SemLock(op.o), {<<"mask", op.o, 0>>}, {})], S.mask[op.o], <<>>)
SemSig(S, t, op, rt) ==
    R([S EXCEPT !.ls = Touch(S, t, SemLock(op.o), {<<"sig", op.o, 0>>}, {})], B2N(S.sig[op.o]), <<>>)

\* interrupt_pending[0].exchange(false): atomic, returns the old value
Exch(S, t, op, rt) == R([S EXCEPT !.latch = FALSE], B2N(S.latch), <<>>)
Unlock(S, t, op, rt) == R([S EXCEPT !.held[ChLock(op.o, op.c)] = "none"], rt, <<>>)

SilentKinds == {"SendCS", "RecvCS", "IfRecvCS", "PeekCS", "ReadyCS", "GetDisCS", "SetDis", "Trig", "Ack", "GetReq",
                "SetEn", "SetVec", "SemSetA", "SemSetC", "SemMaskA", "SemMaskC", "SemClr", "SemClrR", "SemGet", "SemGetMask",
                "SemSig", "Exch", "Unlock"}

Do(S, t, op, rt) ==
    CASE op.k = "SendCS"   -> SendCS(S, t, op, rt)
      [] op.k = "RecvCS"   -> RecvCS(S, t, op, rt)
      [] op.k = "IfRecvCS" -> IF rt = 1 THEN RecvCS(S, t, op, rt) ELSE R(S, rt, <<>>)   \* `if (IsReady) Recv`
      [] op.k = "PeekCS"   -> PeekCS(S, t, op, rt)
      [] op.k = "ReadyCS"  -> ReadyCS(S, t, op, rt)
      [] op.k = "GetDisCS" -> GetDisCS(S, t, op, rt)
      [] op.k = "SetDis"   -> SetDis(S, t, op, rt)
      [] op.k = "Trig"     -> Trig(S, t, op, rt)
      [] op.k = "Ack"      -> Ack(S, t, op, rt)
      [] op.k = "GetReq"   -> GetReq(S, t, op, rt)
      [] op.k = "SetEn"    -> SetEn(S, t, op, rt)
      [] op.k = "SetVec"   -> SetVec(S, t, op, rt)
      [] op.k = "SemSetA"  -> SemSetA(S, t, op, rt)
      [] op.k = "SemSetC"  -> SemSetC(S, t, op, rt)
      [] op.k = "SemClr"   -> SemClrBits(S, t, op.o, op.v, rt)
      [] op.k = "SemClrR"  -> SemClrBits(S, t, op.o, rt, rt)     \* ClearSemaphore(GetSemaphore())
      [] op.k = "SemGet"   -> SemGet(S, t, op, rt)
      [] op.k = "SemMaskA" -> SemMaskA(S, t, op, rt)
      [] op.k = "SemMaskC" -> SemMaskC(S, t, op, rt)
      [] op.k = "SemGetMask" -> SemGetMask(S, t, op, rt)
      [] op.k = "SemSig"   -> SemSig(S, t, op, rt)
      [] op.k = "Exch"     -> Exch(S, t, op, rt)
      [] op.k = "Unlock"   -> Unlock(S, t, op, rt)

-----------------------------------------------------------------------------
(* The two-thread state machine.                                              *)
VARIABLES
    vS,       \* shared objects + ghosts           (v-prefixed: the operators above have parameters S, ret, ...)
    vTodo,    \* per thread: micro-operations still to run for the API call / MMIO access in progress
    vRet,     \* per thread: value returned by its last value-returning micro-operation
    hp,       \* host program state
    dp        \* DSP program state (guest registers: ie, ip, pc, status bits; budgets)
vars == <<vS, vTodo, vRet, hp, dp>>

\* r = result of a micro-operation of thread t; `rest` = what the thread still has to do afterwards
Commit(t, rest, r) == /\ vS' = r.S
                      /\ vRet' = [vRet EXCEPT ![t] = r.ret]
                      /\ vTodo' = [vTodo EXCEPT ![t] = r.fol \o rest]
\* one critical section = one step
Micro(t) == /\ vTodo[t] # <<>>
            /\ Head(vTodo[t]).k \in SilentKinds
            /\ Enabled(vS, t, Head(vTodo[t]), vRet[t])
            /\ Commit(t, Tail(vTodo[t]), Do(vS, t, Head(vTodo[t]), vRet[t]))
\* begin an API call / MMIO access whose first critical section is op
Call(t, op, rest) == /\ vTodo[t] = <<>>
                     /\ Enabled(vS, t, op, vRet[t])
                     /\ Commit(t, rest, Do(vS, t, op, vRet[t]))

ChanSeq == CHOOSE q \in [1..Cardinality(Chans) -> Chans] : \A i, j \in DOMAIN q : i < j => q[i] < q[j]
FirstChan == ChanSeq[1]
NextChan(c) == LET i == CHOOSE j \in DOMAIN ChanSeq : ChanSeq[j] = c
               IN  IF i = Len(ChanSeq) THEN -1 ELSE ChanSeq[i + 1]

\* ---------------- host callbacks.  They run on WHICHEVER THREAD made the call that fires them:
\* the data callback of apbp_from_dsp on the DSP thread (inside the guest's write of 0x0C0+4c); the
\* semaphore callback of apbp_from_dsp on the DSP thread (guest's write of 0x0CC) or on the HOST thread
\* (Teakra::MaskSemaphore unmasking a pending semaphore) -- in both cases with the recursive semaphore
\* mutex of apbp_from_dsp held by that thread.
\* The data callback either calls RecvData or leaves the value for the host thread and calls GetSemaphore
\* instead, and may call SendData (bounded); the semaphore callback polls and fetches channel FirstChan,
\* then calls GetSemaphore and ClearSemaphore of what it read.
CbSemBody == <<Op("ReadyCS", "fd", FirstChan, 0), Op("IfRecvCS", "fd", FirstChan, 0),
               Op("SemGet", "fd", 0, 0), Op("SemClrR", "fd", 0, 0)>>
CbDataBody(c, recv, snd) ==
    (IF recv THEN <<Op("RecvCS", "fd", c, 0)>> ELSE <<Op("SemGet", "fd", 0, 0)>>)
    \o (IF snd = 1 THEN <<Op("SendCS", "fc", c, NSend + dp.ncb + 1)>> ELSE <<>>)
Callback(t) ==
    /\ vTodo[t] # <<>>
    /\ UNCHANGED <<vRet, hp>>
    /\ \/ /\ Head(vTodo[t]).k = "CbData"
          /\ vS' = [vS EXCEPT !.dlv["fd"] = @ + 1]
          /\ \E recv \in BOOLEAN, snd \in {0} \cup (IF dp.ncb < NCbSend THEN {1} ELSE {}) :
               /\ vTodo' = [vTodo EXCEPT ![t] = CbDataBody(Head(@).c, recv, snd) \o Tail(@)]
               /\ dp' = [dp EXCEPT !.ncb = @ + snd]
       \/ /\ Head(vTodo[t]).k = "CbSem"
          /\ vTodo' = [vTodo EXCEPT ![t] = CbSemBody \o Tail(@)]
          /\ UNCHANGED <<vS, dp>>

\* ---------------- host thread
\* hp.pc: "idle" | "drain";  hp.sent[c]: sends made;  hp.ops: other calls made;  hp.dc: drain cursor
HostInit == [pc |-> "idle", sent |-> [c \in Chans |-> 0], ops |-> 0, dc |-> FirstChan]

HSend(c) == /\ hp.pc = "idle" /\ hp.sent[c] < NSend
            /\ Call("h", Op("SendCS", "fc", c, hp.sent[c] + 1), <<>>)
            /\ hp' = [hp EXCEPT !.sent[c] = @ + 1]
HOther(kind, op, rest) == /\ kind \in HostKinds
                          /\ hp.pc = "idle" /\ hp.ops < NHostOps
                          /\ Call("h", op, rest)
                          /\ hp' = [hp EXCEPT !.ops = @ + 1]
HostCalls ==
    \/ \E c \in Chans : HSend(c)
    \/ \E c \in Chans : HOther("Empty", Op("ReadyCS", "fc", c, 0), <<>>)                                 \* SendDataIsEmpty
    \/ \E c \in Chans : HOther("PollRecv", Op("ReadyCS", "fd", c, 0), <<Op("IfRecvCS", "fd", c, 0)>>)    \* RecvDataIsReady; RecvData
    \/ \E b \in SemVals : HOther("SemSet", Op("SemSetA", "fc", 0, b), <<>>)                              \* SetSemaphore
    \/ HOther("SemGet", Op("SemGet", "fd", 0, 0), <<>>)                                                  \* GetSemaphore
    \/ \E b \in SemVals : HOther("SemClr", Op("SemClr", "fd", 0, b), <<>>)                               \* ClearSemaphore
    \/ \E b \in SemVals \cup {0} : HOther("SemMask", Op("SemMaskA", "fd", 0, b), <<>>)                   \* MaskSemaphore
\* the host may stop issuing calls at any time; from then on it only polls for replies, round robin
HStop == /\ hp.pc = "idle" /\ vTodo["h"] = <<>>
         /\ hp' = [hp EXCEPT !.pc = "drain"]
         /\ UNCHANGED <<vS, vTodo, vRet, dp>>
HDrain == /\ hp.pc = "drain"
          /\ Call("h", Op("ReadyCS", "fd", hp.dc, 0), <<Op("IfRecvCS", "fd", hp.dc, 0)>>)
          /\ hp' = [hp EXCEPT !.dc = IF NextChan(@) = -1 THEN FirstChan ELSE NextChan(@)]
HostNext == \/ (Micro("h") /\ UNCHANGED <<hp, dp>>)
            \/ (HostCalls /\ UNCHANGED dp)
            \/ HStop
            \/ (HDrain /\ UNCHANGED dp)
            \/ Callback("h")

\* ---------------- DSP thread: the run loop (latch exchange at the top of every cycle, interrupt entry
\* after an instruction) around a guest program = main loop (poll the status, fetch and echo what is
\* ready, with interrupts off) + INT0 handler (ack the ICU, read the status, fetch and echo, forward the
\* semaphore, reti).  pc values are <<label, channel>>.
DspInit == [pc |-> <<"m_top", 0>>, ph |-> "L", ip |-> FALSE, ie |-> TRUE, rpc |-> <<"m_top", 0>>,
            st |-> [c \in Chans |-> 0], sg |-> 0, ndis |-> 0, nvec |-> 0, ncb |-> 0, nmask |-> 0]

AfterChan(lbl, c, endlbl) == IF NextChan(c) = -1 THEN <<endlbl, 0>> ELSE <<lbl, NextChan(c)>>

\* a guest instruction that makes the MMIO access `op`; dpf(d, r) is the next guest state given the
\* state d after the cycle bookkeeping and the result r of the access
GuestCommit(rest, r, dpf(_, _)) == Commit("d", rest, r) /\ dp' = dpf([dp EXCEPT !.ph = "L"], r)
GuestAccess(op, rest, dpf(_, _)) ==
    /\ Enabled(vS, "d", op, vRet["d"])
    /\ GuestCommit(rest, Do(vS, "d", op, vRet["d"]), dpf)
GuestLocal(newdp) == dp' = [newdp EXCEPT !.ph = "L"] /\ UNCHANGED <<vS, vTodo, vRet>>
GuestGo(op, pc) == /\ Enabled(vS, "d", op, vRet["d"])                 \* an access after which the guest simply goes on at pc
                   /\ Commit("d", <<>>, Do(vS, "d", op, vRet["d"]))
                   /\ dp' = [dp EXCEPT !.ph = "L", !.pc = pc]

DLatch == /\ vTodo["d"] = <<>> /\ dp.ph = "L"
          /\ vS' = [vS EXCEPT !.latch = FALSE]                         \* interrupt_pending[0].exchange(false)
          /\ dp' = [dp EXCEPT !.ip = @ \/ vS.latch, !.ph = "E"]
          /\ UNCHANGED <<vTodo, vRet, hp>>

DInstr(lbl, c) ==
    CASE lbl = "m_top" ->
           \/ GuestLocal([dp EXCEPT !.ie = FALSE, !.pc = <<"m_rdy", FirstChan>>])              \* dint
           \/ /\ dp.ndis < NDis                                                                \* write 0x0D4
              /\ \E b \in {0, 1} :
                   GuestAccess(Op("SetDis", "fc", FirstChan, b),
                               [cc \in 1..(Len(ChanSeq) - 1) |-> Op("SetDis", "fc", ChanSeq[cc + 1], b)],
                               LAMBDA d, r : [d EXCEPT !.ndis = @ + 1])
           \/ /\ dp.nvec < NVec                                                                \* write 0x24C
              /\ GuestAccess(Op("SetVec", "icu", 0, dp.nvec + 1), <<>>, LAMBDA d, r : [d EXCEPT !.nvec = @ + 1])
           \/ /\ dp.nmask < NDspMask                                                           \* write 0x0CE
              /\ \E b \in SemVals \cup {0} :
                   GuestAccess(Op("SemMaskA", "fc", 0, b), <<>>, LAMBDA d, r : [d EXCEPT !.nmask = @ + 1])
      [] lbl = "m_rdy" -> GuestAccess(Op("ReadyCS", "fc", c, 0), <<>>,
                             LAMBDA d, r : [d EXCEPT !.pc = IF r.ret = 1 THEN <<"m_rcv", c>> ELSE AfterChan("m_rdy", c, "m_sig")])
      [] lbl = "m_rcv" -> GuestGo(Op("RecvCS", "fc", c, 0), <<"m_snd", c>>)
      [] lbl = "m_snd" -> GuestGo(Op("SendCS", "fd", c, vRet["d"]), AfterChan("m_rdy", c, "m_sig"))
      [] lbl = "m_sig" -> GuestAccess(Op("SemSig", "fc", 0, 0), <<>>,
                             LAMBDA d, r : [d EXCEPT !.pc = IF r.ret = 1 THEN <<"m_sget", 0>> ELSE <<"m_end", 0>>])
      [] lbl = "m_sget" -> GuestGo(Op("SemGet", "fc", 0, 0), <<"m_sclr", 0>>)
      [] lbl = "m_sclr" -> GuestGo(Op("SemClrR", "fc", 0, 0), <<"m_sset", 0>>)
      [] lbl = "m_sset" -> GuestGo(Op("SemSetA", "fd", 0, vRet["d"]), <<"m_end", 0>>)
      [] lbl = "m_end" -> GuestLocal([dp EXCEPT !.ie = TRUE, !.pc = <<"m_top", 0>>])           \* eint
      \* INT0 handler
      [] lbl = "h_ack" -> GuestGo(Op("Ack", "icu", 0, 0), <<"h_st", FirstChan>>)
      [] lbl = "h_st"  -> GuestAccess(Op("ReadyCS", "fc", c, 0), <<>>,                         \* status word 0x0D6 ...
                             LAMBDA d, r : [d EXCEPT !.st[c] = r.ret, !.pc = AfterChan("h_st", c, "h_sg")])
      [] lbl = "h_sg"  -> GuestAccess(Op("SemSig", "fc", 0, 0), <<>>,                          \* ... is several locked reads
                             LAMBDA d, r : [d EXCEPT !.sg = r.ret, !.pc = <<"h_rcv", FirstChan>>])
      [] lbl = "h_rcv" -> IF dp.st[c] = 1
                          THEN GuestGo(Op("RecvCS", "fc", c, 0), <<"h_snd", c>>)
                          ELSE GuestLocal([dp EXCEPT !.pc = AfterChan("h_rcv", c, "h_sem")])
      [] lbl = "h_snd" -> GuestGo(Op("SendCS", "fd", c, vRet["d"]), AfterChan("h_rcv", c, "h_sem"))
      [] lbl = "h_sem" -> IF dp.sg = 1
                          THEN GuestGo(Op("SemGet", "fc", 0, 0), <<"h_sclr", 0>>)
                          ELSE GuestLocal([dp EXCEPT !.pc = <<"h_reti", 0>>])
      [] lbl = "h_sclr" -> GuestGo(Op("SemClrR", "fc", 0, 0), <<"h_sset", 0>>)
      [] lbl = "h_sset" -> GuestGo(Op("SemSetA", "fd", 0, vRet["d"]), <<"h_reti", 0>>)
      [] lbl = "h_reti" -> GuestLocal([dp EXCEPT !.ie = TRUE, !.pc = dp.rpc])

DExec ==
    /\ vTodo["d"] = <<>> /\ dp.ph = "E"
    /\ UNCHANGED hp
    /\ IF dp.ie /\ dp.ip
       THEN \* interrupt entry: ip = 0, ie = 0, push pc, pc = 0x0006
            GuestLocal([dp EXCEPT !.ip = FALSE, !.ie = FALSE, !.rpc = dp.pc, !.pc = <<"h_ack", 0>>])
       ELSE DInstr(dp.pc[1], dp.pc[2])

DspNext == \/ (Micro("d") /\ UNCHANGED <<hp, dp>>)
           \/ DLatch
           \/ DExec
           \/ Callback("d")

Init == /\ vS = InitS(TRUE, VectoredOn)         \* guest initialisation (ICU enable, ie, im0) already done
        /\ vTodo = [t \in Threads |-> <<>>]
        /\ vRet = [t \in Threads |-> 0]
        /\ hp = HostInit
        /\ dp = DspInit
Next == HostNext \/ DspNext
Spec == Init /\ [][Next]_vars
FairSpec == Spec /\ WF_vars(HostNext) /\ WF_vars(DspNext)

-----------------------------------------------------------------------------
(* Property layer (C19)                                                      *)

\* (a) every value received was sent on that channel, (b) in send order (never reordered or invented)
ValuesOK == vS.bad = {}

\* (f) locking discipline: a variable that both threads access, at least one of them writing, has a
\* common lock over all its accesses (the atomics latch/vlatch are not in Vars)
RacyVars == {x \in Vars : Cardinality(vS.ls[x].thr) = 2 /\ vS.ls[x].wr /\ vS.ls[x].lk = {}}
LocksetOK == RacyVars = {}

\* (e) nobody waits for a lock in a cycle (two threads: on itself, or on a thread that is itself blocked)
Need(t) == IF vTodo[t] # <<>> /\ Head(vTodo[t]).k \in SilentKinds THEN NeedLock(Head(vTodo[t]), vRet[t]) ELSE NoLock
Blocked(t) == ~ CanLock(vS, t, Need(t))
NoDeadlock == \A t \in Threads : Blocked(t) => (vS.held[Need(t)] # t /\ ~ Blocked(vS.held[Need(t)]))

\* locks are only ever held across micro-operations in the documented places
HeldOK == \A l \in Locks : vS.held[l] # "none" =>
             \/ Recursive(l) /\ vTodo[vS.held[l]] # <<>>
             \/ HandlerInsideLock /\ l[1] = "ch" /\ vTodo[vS.held[l]] # <<>>

\* (d) safety half: a delivery is never counted without a send that owed it; the delivery on the DSP
\* side is the ICU request bit and, when irq 14 is routed, the interpreter latch
OwedSafe == \A o \in Objs : vS.dlv[o] <= vS.own[o]
TrigDelivers == [][vS'.dlv["fc"] > vS.dlv["fc"] => (vS'.req /\ (vS.en => vS'.latch))]_vars

MaxOwn == Cardinality(Chans) * NSend + NCbSend
\* (d) liveness half: every send that found interrupts enabled is followed by the handler call
HandlerOwed == \A o \in Objs : \A n \in 1..MaxOwn : (vS.own[o] >= n) ~> (vS.dlv[o] >= n)
\* ... the latch is consumed by the run loop and the interrupt is taken
LatchConsumed == vS.latch ~> ~ vS.latch
IrqTaken == dp.ip ~> (dp.pc = <<"h_ack", 0>>)
\* (c) the last value sent is eventually observed (and stays observed: sends are finitely many)
LastSeen == \A o \in Objs : \A c \in Chans : <>[](vS.rcv[o][c] = vS.sn[o][c])
=============================================================================
