\* the pinned (unrepaired) Channel::Tick: used to show that the model reproduces defect D8 --
\* double-word mode with size0 = B-1 (0xFFFF): counter0 += 2 wraps past size0 and the transfer never ends
CONSTANTS
  B = 4
  BB = 16
  HB = 2
  FixedD8 = FALSE
  RealMap = FALSE
  DataHi = 0
  RangeLo = 0
  RangeHi = 0
  SizeSet <- D8Sizes
  StepPairs <- D8Pairs
  ModeSet <- DspModes
  BaseSet <- D8Bases
  AhbmSet <- NoAhbm
SPECIFICATION Spec
INVARIANTS TypeOK Terminates
CHECK_DEADLOCK FALSE
