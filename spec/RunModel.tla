------------------------------- MODULE RunModel -------------------------------
(* Design-level model for C06: the run loop of Interpreter::Run AS CODED (idle flag, CoreTiming::Skip    *)
(* with the minimum horizon over the components, the additional tick, idle cleared per call and on       *)
(* interrupt entry) next to the plain cycle-by-cycle semantics, on an abstract core:                     *)
(*   program  "idle"  main is the self-branch `L: brr -1`          (sets the idle flag)                   *)
(*            "count" main is `L: inc cnt0 ; brr -2`                (never idle)                          *)
(*            handler at H: `inc cnt1 ; reti`                                                            *)
(* one interrupt line fed by two timers (TimerOps at a small limb base, all modes), global and line      *)
(* enables; with Family = "audio" additionally one audio port (Btdmp at a small capacity: queue, phase,   *)
(* period, flags; its interrupt feeds the same line, its frames are part of the observation), whose      *)
(* GetMaxSkip / Skip take part in CoreTiming::Skip exactly like the timers'.  Property: for every start configuration, every cycle budget n <= N and every way of slicing  *)
(* n into calls, RunAsCoded over the slices and n single Cycles give the same observation (program       *)
(* position, counters, enables, pending bits, latch, complete timer state incl. the MMIO mirror, number  *)
(* of interrupts raised).                                                                                 *)
EXTENDS Naturals, Sequences, TLC
CONSTANTS TB,                 \* limb base of the timers
          N,                  \* largest cycle budget
          FixPending,         \* TRUE: the repaired loop (no skip while an interrupt signal is latched)
          GuardSeesVectored,  \* TRUE: the guard of the fast-forward looks at the vectored signal as well (as coded); FALSE: a
                              \* guard that only looks at the line signals (a mutation kept as a negative control)
          FixSkipZero,        \* TRUE: the repaired Timer::Skip(0)
          Family,             \* "timers": all timer configurations, audio port off; "audio": the audio port in every state
          FixAudioSkip        \* TRUE: the repaired Btdmp::Skip (phase overrun / ticks = 0).  (With FALSE the invariant holds as
                              \* well: a phase at or beyond the period cannot survive the first cycle of a call, which is always
                              \* executed in full -- inside the emulator that defect needs SetTransmitPeriod, see C16.)

T == INSTANCE TimerOps WITH B <- TB, FixedSkipZero <- FixSkipZero
ACap == 3
A == INSTANCE Btdmp WITH Cap <- ACap, TW <- 8, ResetPeriod <- 4, FixedSkipOverrun <- FixAudioSkip, Vals <- {}, Periods <- {}, Clocks <- {},
                         K <- 0, G <- 0, PhaseKept <- FALSE, s <- 0, ev <- 0, outc <- 0, gin <- 0, gout <- 0, gpad <- 0

\* machine: pc in {"L", "L2", "H", "H2"}, prog, idle, ie, im, ip, lat, ret (return position), c0, c1, tm (2 timers), irqs
Exec(m) ==
    CASE m.pc = "L" /\ m.prog = "idle"  -> [m EXCEPT !.idle = TRUE]                  \* brr -1: pc stays
      [] m.pc = "L" /\ m.prog = "count" -> [m EXCEPT !.c0 = (@ + 1) % 4, !.pc = "L2"]
      [] m.pc = "L2" -> [m EXCEPT !.pc = "L"]                                         \* brr -2
      [] m.pc = "H"  -> [m EXCEPT !.c1 = (@ + 1) % 4, !.pc = "H2"]
      [] m.pc = "H2" -> [m EXCEPT !.pc = m.ret, !.ie = 1]                            \* reti
\* two inputs of the core: the interrupt line (lat -> ip, mask im) and the vectored input (vlat -> ipv, mask imv); the line wins
Latch(m) == LET m1 == IF m.lat = 1 THEN [m EXCEPT !.ip = 1, !.lat = 0] ELSE m
            IN  IF m1.vlat = 1 THEN [m1 EXCEPT !.ipv = 1, !.vlat = 0] ELSE m1
Enter(m) == IF m.ie = 1 /\ m.im = 1 /\ m.ip = 1
            THEN [m EXCEPT !.ip = 0, !.ie = 0, !.ret = m.pc, !.pc = "H", !.idle = FALSE]
            ELSE IF m.ie = 1 /\ m.imv = 1 /\ m.ipv = 1
            THEN [m EXCEPT !.ipv = 0, !.ie = 0, !.ret = m.pc, !.pc = "H", !.idle = FALSE]
            ELSE m
\* timer 1 is routed to the line or (m.vec = 1) to the vectored input; timer 2 and the audio port always to the line
ApplyT(m, i, r) == [m EXCEPT !.tm[i] = r.t, !.lat = IF r.irq > 0 /\ ~ (i = 1 /\ m.vec = 1) THEN 1 ELSE @,
                             !.vlat = IF r.irq > 0 /\ i = 1 /\ m.vec = 1 THEN 1 ELSE @, !.irqs = (@ + r.irq) % 8]
\* the audio port's callbacks: interrupts feed the line, frames are remembered (observation)
RECURSIVE ApplyA(_, _, _)
ApplyA(m, evs, j) == IF j > Len(evs) THEN m
                     ELSE IF evs[j] = A!IRQ THEN ApplyA([m EXCEPT !.lat = 1, !.irqs = (@ + 1) % 8], evs, j + 1)
                     ELSE ApplyA([m EXCEPT !.fr = Append(@, <<evs[j][2], evs[j][3]>>)], evs, j + 1)
AudioRes(m, r) == ApplyA([m EXCEPT !.bt = r.s, !.bad = @ \/ r.out # "ok"], r.ev, 1)
\* CoreTiming::Tick in registration order: timer0, timer1, audio port
TickAll(m) == LET m1 == ApplyT(m, 1, T!TickOp(m.tm[1]))
                  m2 == ApplyT(m1, 2, T!TickOp(m1.tm[2]))
              IN  AudioRes(m2, A!TickOp(m2.bt))
Cycle(m) == TickAll(Enter(Exec(Latch(m))))

RECURSIVE CycleN(_, _)
CycleN(m, n) == IF n = 0 THEN m ELSE CycleN(Cycle(m), n - 1)

\* CoreTiming::Skip(maximum) with small naturals standing for the wide values
WNat(w) == w[1] * TB + w[2]
NatW(n) == <<n \div TB, n % TB>>
Hor(t) == LET h == T!Horizon(t) IN IF h = T!INF THEN 1000 ELSE WNat(h)
Min(a, b) == IF a <= b THEN a ELSE b
HorA(b) == LET h == A!Horizon(b) IN IF h = A!INF THEN 1000 ELSE h
SkipAll(m, maxk) ==
    LET k == Min(maxk, Min(Min(Hor(m.tm[1]), Hor(m.tm[2])), HorA(m.bt)))
    IN  [k |-> k, m |-> AudioRes([m EXCEPT !.tm = <<T!SkipOp(m.tm[1], NatW(k)).t, T!SkipOp(m.tm[2], NatW(k)).t>>], A!SkipOp(m.bt, k))]

\* Interpreter::Run(cycles) as coded: loop variable i
RECURSIVE RunFrom(_, _, _)
RunFrom(m, i, cycles) ==
    IF i >= cycles THEN m
    ELSE IF m.idle /\ (~ FixPending \/ (m.lat = 0 /\ (~ GuardSeesVectored \/ m.vlat = 0)))
         THEN LET sk == SkipAll(m, cycles - i - 1)
                  i1 == i + sk.k
              IN  IF i1 < cycles - 1
                  THEN RunFrom(Cycle(TickAll(sk.m)), i1 + 2, cycles)
                  ELSE RunFrom(Cycle(sk.m), i1 + 1, cycles)
         ELSE RunFrom(Cycle(m), i + 1, cycles)
RunAsCoded(m, cycles) == RunFrom([m EXCEPT !.idle = FALSE], 0, cycles)

RECURSIVE RunSlices(_, _)
RunSlices(m, sl) == IF sl = <<>> THEN m ELSE RunSlices(RunAsCoded(m, Head(sl)), Tail(sl))

\* all ways of writing n as an ordered sum of positive parts
RECURSIVE Compositions(_)
Compositions(n) == IF n = 0 THEN {<<>>}
                   ELSE UNION {{<<k>> \o c : c \in Compositions(n - k)} : k \in 1 .. n}

Obs(m) == [m EXCEPT !.idle = FALSE]          \* the idle flag is internal (cleared by every Run call)

\* start configurations
TimerStates1 == {[c |-> c, s |-> s, m |-> md, p |-> p, u |-> 1, mi |-> c, sc |-> 0] :
                    c \in T!WideSet, s \in T!WideSet, md \in 0 .. 3, p \in 0 .. 1}
TimerStates2 == {[c |-> c, s |-> s, m |-> md, p |-> 0, u |-> 0, mi |-> <<0, 0>>, sc |-> 0] :
                    c \in {<<0, 0>>, <<0, 1>>, <<1, 0>>}, s \in {<<0, 0>>, <<0, 1>>}, md \in {0, 1}}
\* audio port states: every queue over two sample values up to the capacity, every phase incl. phases at or beyond the
\* period, flags as the code keeps them
Queues == UNION {[1 .. n -> {1, 2}] : n \in 0 .. ACap}
AudioStates == {[q |-> q, tm |-> t, pd |-> p, en |-> e, em |-> IF q = <<>> THEN 1 ELSE 0, fu |-> IF Len(q) = ACap THEN 1 ELSE 0, cc |-> 0] :
                    q \in Queues, t \in 0 .. 3, p \in 1 .. 3, e \in 0 .. 1}
AudioOff == [A!ResetState EXCEPT !.pd = 4]
TimerStatesA == {[c |-> c, s |-> <<0, 1>>, m |-> md, p |-> 0, u |-> 1, mi |-> c, sc |-> 0] : c \in {<<0, 0>>, <<0, 1>>, <<1, 0>>}, md \in {0, 1, 2}}
TimerStopped == [c |-> <<0, 0>>, s |-> <<0, 0>>, m |-> 0, p |-> 0, u |-> 0, mi |-> <<0, 0>>, sc |-> 0]
MkV(pr, ie, im, lat, t1, t2, b, vec) ==
    [pc |-> "L", prog |-> pr, idle |-> FALSE, ie |-> ie, im |-> im, imv |-> im, ip |-> 0, ipv |-> 0,
     lat |-> IF vec = 0 THEN lat ELSE 0, vlat |-> IF vec = 1 THEN lat ELSE 0, vec |-> vec, ret |-> "L",
     c0 |-> 0, c1 |-> 0, tm |-> <<t1, t2>>, irqs |-> 0, bt |-> b, fr |-> <<>>, bad |-> FALSE]
\* im stands for both masks, lat for a signal on the routed input of timer 1
Mk(pr, ie, im, lat, t1, t2, b) == MkV(pr, ie, im, lat, t1, t2, b, 0)
Starts == IF Family = "timers"
          THEN {MkV(pr, ie, im, lat, t1, t2, AudioOff, vec) :
                  pr \in {"idle", "count"}, ie \in 0 .. 1, im \in 0 .. 1, lat \in 0 .. 1, t1 \in TimerStates1, t2 \in TimerStates2, vec \in 0 .. 1}
          ELSE {Mk(pr, ie, im, lat, t1, TimerStopped, b) :
                  pr \in {"idle", "count"}, ie \in 0 .. 1, im \in 0 .. 1, lat \in 0 .. 1, t1 \in TimerStatesA, b \in AudioStates}

VARIABLE vM
\* the start configurations are fanned out from a few seed states so that all workers share the work
Seeds == {[m EXCEPT !.pc = "seed"] : m \in {x \in Starts : x.tm[1] = (CHOOSE y \in Starts : TRUE).tm[1]}}
Init == vM \in Seeds
Next == vM.pc = "seed" /\ vM' \in {x \in Starts : x.prog = vM.prog /\ x.ie = vM.ie /\ x.im = vM.im /\ x.lat = vM.lat /\ x.vlat = vM.vlat /\ x.vec = vM.vec /\ x.tm[2] = vM.tm[2] /\ x.bt = vM.bt}

SlicingInvariant ==
    vM.pc # "seed" =>
    \A n \in 1 .. N : \A sl \in Compositions(n) : Obs(RunSlices(vM, sl)) = Obs(CycleN(vM, n))
=============================================================================
