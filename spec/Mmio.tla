------------------------------- MODULE Mmio -------------------------------
(* The XpertTeak MMIO register file as teakra implements it (src/mmio.cpp,    *)
(* src/mmio.h and the component classes it binds: timer.h, dma.h, icu.h,      *)
(* ahbm.h, apbp.cpp, btdmp.h, memory_interface.h), written by hand from the   *)
(* code and from src/{mmio,timer,dma,icu,ahbm,apbp,btdmp,miu}.md.             *)
(*                                                                            *)
(* as-is layer   Reg (the table offset -> kind of cell), Fresh, ResetEffect,  *)
(*               Write, Read, ReadEffect, the host mailbox calls and the two   *)
(*               access paths (host accessor at any 0x800 mirror, DSP data     *)
(*               access at mmio_base + offset).                                *)
(* property layer (C12)  RWMask, Coupled, ReadCoupled and the predicates       *)
(*               ReadBackAt / NonAliasingAt / ChannelIndependentAt /           *)
(*               PathsAgreeAt; MC_Mmio.tla quantifies them, MmioTrace.tla      *)
(*               re-evaluates the frame rule on every observed access.         *)
(*                                                                            *)
(* State: ONE function s from field keys <<device, index, field>> to 16-bit    *)
(* values (all keys are <<string, number, string>> so TLC can compare them):   *)
(*   <<"cell",off,"raw">>  backing word of the cell at offset off: the storage *)
(*                         of a default Cell(), or the raw word a BitFieldCell *)
(*                         keeps besides its slots.  SPARSE: the key exists    *)
(*                         once the word has been written; absent = 0 (every   *)
(*                         backing word starts as 0 and nothing but a write to *)
(*                         its own offset ever changes it)                     *)
(*   <<"timer",i,f>>       scale mode pause mu start_low start_high            *)
(*                         ctr_low ctr_high (the MMIO mirror)  cnt_hi cnt_lo   *)
(*                         (Timer::counter, not readable through MMIO)         *)
(*   <<"apbp",d,f>>        d=0 apbp_from_cpu, d=1 apbp_from_dsp: ready0..2     *)
(*                         data0..2 dis0..2 sem mask signal                    *)
(*   <<"ahbm",i,f>>        burst unit dir dmach ; <<"ahbm",0,"busy">>          *)
(*   <<"miu",i,f>>         x_page y_page z_page page_mode mmio_base (i=0),     *)
(*                         x_size y_size (i=0,1)                               *)
(*   <<"dmac",0,f>>        enable active ; <<"dma",ch,f>> the 18 channel regs  *)
(*   <<"icu",i,f>>         request venable (i=0) enable (i=0..2)               *)
(*                         vlow vhigh vctx (i=0..15)                           *)
(*   <<"bt",i,f>>          clock enable empty full qlen (queue length)         *)
(*                                                                            *)
(* Side effects that stay inside the register file are modelled in full       *)
(* (timer restart and counter mirror, DMA channel select, status flags).      *)
(* Side effects that leave it are modelled just far enough to predict every   *)
(* read-back: DMA start (0x1DE := 0x40C0) = store z and raise IRQ 15 (the      *)
(* transfer itself is C13), ICU trigger = request bits (delivery to the core   *)
(* is C07), APBP = data/ready/semaphore words (handlers and locking are        *)
(* C14/C19), BTDMP = queue length and the empty/full flags (contents are C16). *)
(* No offset is excluded from the write set.  What the spec does not predict:  *)
(* the DSP memory written by a DMA transfer, the interpreter's interrupt       *)
(* latches, the AHBM burst queues, the words inside the audio FIFO.            *)
(* One situation is never driven into the real code by the recorder: a DMA   *)
(* start of more than 4096 elements (does not end in useful time).            *)
EXTENDS Naturals, Sequences, FiniteSets, TLC, Bitwise

CONSTANTS
  FixedChannelSelect,    \* TRUE  = the code after "fix: DMA channel select is a 3-bit field": 0x1BE keeps
                         \*   v & 7; FALSE = as pinned before it: all 16 bits were kept and a window
                         \*   access with active_channel >= 8 indexed channels[] out of range ("oob")
  FixedWindowRaw,        \* FALSE = as pinned: the bits of 0x1DA outside its three slots live in ONE
                         \*   BitFieldCell word shared by the eight DMA channels;
                         \* TRUE  = proposed repair: kept per channel
  FixedWatchdogRestart   \* FALSE = as pinned: TIMERx_CFG written with RES=1 and CM in 4..7 (the
                         \*   documented watchdog modes) trips ASSERT(count_mode < 4) in Timer::Restart
                         \*   after the other slots were stored and before the raw word is stored;
                         \* TRUE  = proposed repair: restart is ignored in those modes

OOB == 65536              \* "read-back" of a DMA window register while active_channel >= 8: only
                          \* reachable with FixedChannelSelect = FALSE (out-of-range std::array index)
Pow2(n) == 2^n
Field(v, pos, len)   == (v \div Pow2(pos)) % Pow2(len)
SlotMask(pos, len)   == (Pow2(len) - 1) * Pow2(pos)
AndNot(a, m)         == a - (a & m)
\* BitFieldCell.get: value &= ~mask; value |= get() << pos   (the getter result is NOT masked to the
\* slot length; bits shifted beyond bit 15 are lost in the u16 assignment)
Overlay(val, pos, len, x) == AndNot(val, SlotMask(pos, len)) | ((x % Pow2(16 - pos)) * Pow2(pos))

K(d, i, f) == <<d, i, f>>
NoKey      == <<"", 0, "">>
CellK(o)   == <<"cell", o, "raw">>
ActiveK    == <<"dmac", 0, "active">>
ReqK       == <<"icu", 0, "request">>

-----------------------------------------------------------------------------
(* The table.                                                                *)
(* A slot is [pos, len, k, key]:                                             *)
(*   "ref"      setter stores the bits in key, getter overlays key           *)
(*   "none"     BitFieldSlot{pos,len,{},{}}: neither; the bits stay in raw    *)
(*   "ro"       getter only (status flag)                                    *)
(*   "restart"  TIMERx_CFG.RES: setter restarts timer key[2] when the bit is  *)
(*              1, getter returns 0                                          *)
(* key device "dmawin" stands for channels[active_channel].                  *)
SRef(pos, len, key) == [pos |-> pos, len |-> len, k |-> "ref",     key |-> key]
SNone(pos, len)     == [pos |-> pos, len |-> len, k |-> "none",    key |-> NoKey]
SRo(pos, len, key)  == [pos |-> pos, len |-> len, k |-> "ro",      key |-> key]
SRestart(pos, i)    == [pos |-> pos, len |-> 1,   k |-> "restart", key |-> K("timer", i, "")]

(* A register is [k, key, slots, dm]; dm = the bits that the *.md layout     *)
(* names as read/write fields (status, trigger and unnamed bits excluded).   *)
(*   "store"  default Cell(): plain storage in <<"cell",off,"raw">>          *)
(*   "const"  ConstCell(key[2]); writes are dropped (NoSet)                  *)
(*   "ref"    RefCell / setter+getter pair of one 16-bit field               *)
(*   "ro"     getter of a field, setter empty or NoSet                       *)
(*   "bits"   BitFieldCell(slots)                                            *)
(*   "win"    DMA window register = field key[3] of channels[active]          *)
(*   others   side-effect cells, see Write/Read                              *)
R(k, key, slots, dm) == [k |-> k, key |-> key, slots |-> slots, dm |-> dm]
Store(dm)      == R("store", NoKey, <<>>, dm)
Const(c)       == R("const", K("", c, ""), <<>>, 0)
Ref(key, dm)   == R("ref", key, <<>>, dm)
Ro(key)        == R("ro", key, <<>>, 0)
Bits(sl, dm)   == R("bits", NoKey, sl, dm)
Win(f)         == R("win", K("dmawin", 0, f), <<>>, \hFFFF)
Sp(k, i)       == R(k, K("", i, ""), <<>>, 0)

TimerRegs(i) == LET b == \h20 + \h10 * i  T(f) == K("timer", i, f) IN
     (b      :> Bits(<< SRef(0, 2, T("scale")),    \* TS
                        SRef(2, 3, T("mode")),     \* CM (enum CountMode: holds the written bits)
                        SNone(6, 1), SNone(7, 1),  \* TP CT
                        SRef(8, 1, T("pause")),    \* PC
                        SRef(9, 1, T("mu")),       \* MU
                        SRestart(10, i),           \* RES
                        SNone(11, 1), SNone(12, 1), SNone(13, 1), SNone(14, 2) >>, \hFBDF))
  @@ (b + 2  :> Sp("timer_ew", i))                 \* TIMERx_EW
  @@ (b + 4  :> Ref(T("start_low"), \hFFFF))
  @@ (b + 6  :> Ref(T("start_high"), \hFFFF))
  @@ (b + 8  :> Ref(T("ctr_low"), \hFFFF))         \* the mirror; writable by MMIO
  @@ (b + 10 :> Ref(T("ctr_high"), \hFFFF))
  @@ (b + 12 :> Store(\hFFFF)) @@ (b + 14 :> Store(\hFFFF))   \* PWM counters: storage only

FC(f) == K("apbp", 0, f)     \* apbp_from_cpu
FD(f) == K("apbp", 1, f)     \* apbp_from_dsp
ApbpRegs ==
     (\hC0 :> Sp("reply", 0)) @@ (\hC2 :> Sp("cmd", 0))
  @@ (\hC4 :> Sp("reply", 1)) @@ (\hC6 :> Sp("cmd", 1))
  @@ (\hC8 :> Sp("reply", 2)) @@ (\hCA :> Sp("cmd", 2))
  @@ (\hCC :> Sp("sem_set", 0))
  @@ (\hCE :> R("sem_mask", FC("mask"), <<>>, \hFFFF))
  @@ (\hD0 :> Sp("sem_ack", 0))
  @@ (\hD2 :> Ro(FC("sem")))
  @@ (\hD4 :> Bits(<< SNone(2, 1), SRef(8, 1, FC("dis0")), SRef(12, 1, FC("dis1")),
                      SRef(13, 1, FC("dis2")) >>, \h3104))
  @@ (\hD6 :> Bits(<< SRo(5, 1, FD("ready0")), SRo(6, 1, FD("ready1")), SRo(7, 1, FD("ready2")),
                      SRo(8, 1, FC("ready0")), SRo(9, 1, FC("signal")),
                      SRo(12, 1, FC("ready1")), SRo(13, 1, FC("ready2")) >>, 0))
  @@ (\hD8 :> Bits(<< SRo(9, 1, FC("signal")),
                      SRo(10, 1, FD("ready0")), SRo(11, 1, FD("ready1")), SRo(12, 1, FD("ready2")),
                      SRo(13, 1, FC("ready0")), SRo(14, 1, FC("ready1")), SRo(15, 1, FC("ready2")) >>, 0))

AhbmChan(i) == LET b == \hE2 + 6 * i  A(f) == K("ahbm", i, f) IN
     (b     :> Bits(<< SRef(1, 2, A("burst")), SRef(4, 2, A("unit")) >>, \h37))
  @@ (b + 2 :> Bits(<< SRef(8, 1, A("dir")) >>, \h300))
  @@ (b + 4 :> Ref(A("dmach"), \hFF))
AhbmRegs == (\hE0 :> Ro(K("ahbm", 0, "busy"))) @@ AhbmChan(0) @@ AhbmChan(1) @@ AhbmChan(2)

MiuRegs ==
     (\h100 :> Store(\hFFFF)) @@ (\h102 :> Store(\h0FFF)) @@ (\h104 :> Store(\hFFFF))
  @@ (\h106 :> Store(\hFFFF)) @@ (\h108 :> Store(\hFFFF)) @@ (\h10A :> Store(\hFFFF))
  @@ (\h10C :> Store(0))
  @@ (\h10E :> Ref(K("miu", 0, "x_page"), \hFFFF))
  @@ (\h110 :> Ref(K("miu", 0, "y_page"), \h00FF))
  @@ (\h112 :> Ref(K("miu", 0, "z_page"), \hFFFF))
  @@ (\h114 :> Bits(<< SRef(0, 6, K("miu", 0, "x_size")), SRef(8, 6, K("miu", 0, "y_size")) >>, \h7F3F))
  @@ (\h116 :> Bits(<< SRef(0, 6, K("miu", 1, "x_size")), SRef(8, 6, K("miu", 1, "y_size")) >>, \h7F3F))
  @@ (\h118 :> Store(\h7F3F))
  @@ (\h11A :> Bits(<< SNone(0, 1), SNone(1, 1), SNone(2, 1), SNone(4, 1),
                       SRef(6, 1, K("miu", 0, "page_mode")) >>, \h57))
  @@ (\h11C :> Store(\h7F))
  @@ (\h11E :> Ref(K("miu", 0, "mmio_base"), \hFC00))
  @@ (\h120 :> Store(\hF)) @@ (\h122 :> Store(\h7F))

WinFields == << "addr_src_low", "addr_src_high", "addr_dst_low", "addr_dst_high", "size0", "size1",
                "size2", "src_step0", "dst_step0", "src_step1", "dst_step1", "src_step2", "dst_step2" >>
DmaFields == { WinFields[i] : i \in 1..13 } \cup { "src_space", "dst_space", "dword_mode", "y", "z" }
              \cup (IF FixedWindowRaw THEN { "cfg_raw" } ELSE {})
DmaRegs ==
     (\h180 :> Store(0)) @@ (\h182 :> Store(0))
  @@ (\h184 :> Ref(K("dmac", 0, "enable"), \hFF))
  @@ (\h186 :> Store(0)) @@ (\h188 :> Store(0)) @@ (\h18A :> Store(0))
  @@ (\h18C :> Sp("seox", 0))                \* get = 0xFFFF, set = the default cell's hidden storage
  @@ (\h18E :> Store(\h7777)) @@ (\h190 :> Store(\h7777))
  @@ (\h1BE :> R("chsel", ActiveK, <<>>, 7))  \* Dma::ActivateChannel keeps v & 7 (3-bit CHANNEL field)
  @@ [o \in { \h1C0 + 2 * (i - 1) : i \in 1..13 } |-> Win(WinFields[(o - \h1C0) \div 2 + 1])]
  @@ (\h1DA :> Bits(<< SRef(0, 4, K("dmawin", 0, "src_space")), SRef(4, 4, K("dmawin", 0, "dst_space")),
                       SRef(10, 1, K("dmawin", 0, "dword_mode")) >>, \h04FF))
  @@ (\h1DC :> Win("y"))
  @@ (\h1DE :> R("win_z", K("dmawin", 0, "z"), <<>>, \hC000))
WindowOffs == { \h1C0 + 2 * i : i \in 0..15 }

IcuRegs ==
     (\h200 :> Ro(ReqK))
  @@ (\h202 :> Sp("icu_ack", 0)) @@ (\h204 :> Sp("icu_trig", 0))
  @@ (\h206 :> Ref(K("icu", 0, "enable"), \hFFFF)) @@ (\h208 :> Ref(K("icu", 1, "enable"), \hFFFF))
  @@ (\h20A :> Ref(K("icu", 2, "enable"), \hFFFF)) @@ (\h20C :> Ref(K("icu", 0, "venable"), \hFFFF))
  @@ (\h20E :> Store(\hFFFF)) @@ (\h210 :> Store(\hFFFF))
  @@ [o \in { \h212 + 4 * i : i \in 0..15 } |->
        Bits(<< SRef(0, 2, K("icu", (o - \h212) \div 4, "vhigh")),
                SRef(15, 1, K("icu", (o - \h212) \div 4, "vctx")) >>, \h8003)]
  @@ [o \in { \h214 + 4 * i : i \in 0..15 } |-> Ref(K("icu", (o - \h214) \div 4, "vlow"), \hFFFF)]

BtRegs(i) == LET b == \h80 * i  T(f) == K("bt", i, f) IN
     (b + \h280 :> Store(\h200)) @@ (b + \h282 :> Store(\h1FFF))
  @@ [o \in { b + \h284 + 2 * j : j \in 0..6 } |-> Store(\hFFFF)]      \* 0x284 .. 0x290
  @@ (b + \h29E :> Store(\h8000))
  @@ (b + \h2A0 :> Store(\h200))
  @@ (b + \h2A2 :> Ref(T("clock"), \h1FFF))
  @@ [o \in { b + \h2A4 + 2 * j : j \in 0..6 } |-> Store(\hFFFF)]      \* 0x2A4 .. 0x2B0
  @@ (b + \h2BE :> Ref(T("enable"), \h8000))
  @@ (b + \h2C0 :> Store(0))
  @@ (b + \h2C2 :> Bits(<< SRo(3, 1, T("full")), SRo(4, 1, T("empty")) >>, 0))
  @@ (b + \h2C4 :> Store(0))
  @@ (b + \h2C6 :> Sp("bt_send", i))         \* set = Send; get = the default cell's never-written storage
  @@ (b + \h2C8 :> Store(0))
  @@ (b + \h2CA :> Sp("bt_flush", i))

Reg == (\h01A :> Const(\hC902)) @@ TimerRegs(0) @@ TimerRegs(1) @@ ApbpRegs @@ AhbmRegs @@ MiuRegs
       @@ DmaRegs @@ IcuRegs @@ BtRegs(0) @@ BtRegs(1)

DocOffs    == DOMAIN Reg                    \* the 177 documented offsets
AllOffs    == 0 .. \h7FF                    \* odd offsets are cells of their own: plain storage
SampleOffs == { 0, 1, 2, \h21, \h1C1, \h1BC, \h400, \h7FE, \h7FF }   \* undocumented representatives
CmdOffs    == { \hC2, \hC6, \hCA }          \* reading them is not pure (RecvData)
RegOf(o)   == IF o \in DocOffs THEN Reg[o] ELSE Store(0)

-----------------------------------------------------------------------------
(* State                                                                     *)
TimerF == { "scale", "mode", "pause", "mu", "start_low", "start_high", "ctr_low", "ctr_high",
            "cnt_hi", "cnt_lo" }
ApbpF  == { "ready0", "ready1", "ready2", "data0", "data1", "data2", "dis0", "dis1", "dis2",
            "sem", "mask", "signal" }
DevKeys ==
       { K("timer", i, f) : i \in 0..1, f \in TimerF }
  \cup { K("apbp", d, f) : d \in 0..1, f \in ApbpF }
  \cup { K("ahbm", i, f) : i \in 0..2, f \in { "burst", "unit", "dir", "dmach" } } \cup { K("ahbm", 0, "busy") }
  \cup { K("miu", 0, f) : f \in { "x_page", "y_page", "z_page", "page_mode", "mmio_base" } }
  \cup { K("miu", i, f) : i \in 0..1, f \in { "x_size", "y_size" } }
  \cup { K("dmac", 0, "enable"), ActiveK }
  \cup { K("dma", c, f) : c \in 0..7, f \in DmaFields }
  \cup { ReqK, K("icu", 0, "venable") } \cup { K("icu", i, "enable") : i \in 0..2 }
  \cup { K("icu", i, f) : i \in 0..15, f \in { "vlow", "vhigh", "vctx" } }
  \cup { K("bt", i, f) : i \in 0..1, f \in { "clock", "enable", "empty", "full", "qlen" } }
Keys     == DevKeys                      \* of a fresh object; cell keys join as they are written
CellGet(s, o)    == IF CellK(o) \in DOMAIN s THEN s[CellK(o)] ELSE 0
CellSet(s, o, v) == IF CellK(o) \in DOMAIN s THEN [s EXCEPT ![CellK(o)] = v] ELSE s @@ (CellK(o) :> v)

\* value of a key in a freshly constructed Teakra (member initialisers; the ICU vector tables are
\* zero-initialised since "fix: Reset() must also reset the interrupt controller")
FreshVal(k) == CASE k[1] = "miu" /\ k[3] = "x_size"    -> \h20
                 [] k[1] = "miu" /\ k[3] = "y_size"    -> \h1E
                 [] k[1] = "miu" /\ k[3] = "mmio_base" -> \h8000
                 [] k[1] = "bt"  /\ k[3] = "empty"     -> 1
                 [] OTHER -> 0
\* TLC keeps [x \in S |-> e] as an unevaluated lambda (and stacks EXCEPTs on it); TLCEval makes it an
\* explicit table once
Tab(f) == TLCEval(f)
Fresh == Tab([k \in Keys |-> FreshVal(k)])

(* Teakra::Reset = miu, icu, both apbp (DataChannel::Reset now clears       *)
(* disable_interrupt too), both timers, ahbm, dma, both btdmp, processor:     *)
(* every device field returns to its constructor value.  NOT touched: every   *)
(* BitFieldCell raw word and every default Cell word (they live in lambdas    *)
(* of MMIORegion) -- the known finding of C17, modelled as the code is.       *)
ResetKey(k) == k[1] # "cell"
ResetEffect(s) == Tab([k \in DOMAIN s |-> IF ResetKey(k) THEN FreshVal(k) ELSE s[k]])
SurvivesReset  == { k \in Keys \cup { CellK(o) : o \in AllOffs } : ~ ResetKey(k) }

Ok(s)    == [s |-> s, out |-> "ok"]
Abort(s) == [s |-> s, out |-> "assert"]
Oob(s)   == [s |-> s, out |-> "oob"]       \* channels[active_channel] with active_channel >= 8

-----------------------------------------------------------------------------
(* Component operations reached through MMIO                                 *)
TK(i, f) == K("timer", i, f)
\* Timer::UpdateMMIO
TUpd(s, i) == IF s[TK(i, "mu")] # 0
              THEN [s EXCEPT ![TK(i, "ctr_high")] = s[TK(i, "cnt_hi")], ![TK(i, "ctr_low")] = s[TK(i, "cnt_lo")]]
              ELSE s
\* Timer::Restart
TRestart(s, i) ==
    IF s[TK(i, "mode")] >= 4
    THEN (IF FixedWatchdogRestart THEN Ok(s) ELSE Abort(s))
    ELSE IF s[TK(i, "mode")] # 2
         THEN Ok(TUpd([s EXCEPT ![TK(i, "cnt_hi")] = s[TK(i, "start_high")],
                                ![TK(i, "cnt_lo")] = s[TK(i, "start_low")]], i))
         ELSE Ok(s)
\* ICU::Trigger as far as the register file sees it
Raise(s, bits) == [s EXCEPT ![ReqK] = s[ReqK] | bits]
TimerIrq(i) == IF i = 0 THEN \h400 ELSE \h200      \* timer 0 -> IRQ 10, timer 1 -> IRQ 9
\* Timer::TickEvent
TTickEvent(s, i) ==
    IF s[TK(i, "pause")] # 0 \/ s[TK(i, "mode")] # 3 \/ (s[TK(i, "cnt_hi")] = 0 /\ s[TK(i, "cnt_lo")] = 0)
    THEN s
    ELSE LET hi == IF s[TK(i, "cnt_lo")] = 0 THEN s[TK(i, "cnt_hi")] - 1 ELSE s[TK(i, "cnt_hi")]
             lo == IF s[TK(i, "cnt_lo")] = 0 THEN \hFFFF ELSE s[TK(i, "cnt_lo")] - 1
             s1 == TUpd([s EXCEPT ![TK(i, "cnt_hi")] = hi, ![TK(i, "cnt_lo")] = lo], i)
         IN  IF hi = 0 /\ lo = 0 THEN Raise(s1, TimerIrq(i)) ELSE s1

Dn(f, i) == CASE i = 0 -> f \o "0" [] i = 1 -> f \o "1" [] i = 2 -> f \o "2"
SigOf(sem, mask) == IF AndNot(sem, mask) # 0 THEN 1 ELSE 0

\* key of a slot / window register in the current state; the DMA window resolves to channels[active]
ResKey(s, key) == IF key[1] = "dmawin" THEN <<"dma", s[ActiveK], key[3]>> ELSE key
WinOk(s)       == s[ActiveK] < 8
\* raw word of the BitFieldCell at offset o
WinRaw(o)      == o = \h1DA /\ FixedWindowRaw
RawGet(s, o)   == IF WinRaw(o) THEN s[<<"dma", s[ActiveK], "cfg_raw">>] ELSE CellGet(s, o)
RawSet(s, o, v) == IF WinRaw(o) THEN [s EXCEPT ![<<"dma", s[ActiveK], "cfg_raw">>] = v] ELSE CellSet(s, o, v)

-----------------------------------------------------------------------------
(* Write(s, o, v): MMIORegion::Write(o, v) -> [s, out]                        *)
RECURSIVE ApplySlots(_, _, _, _)
ApplySlots(s, slots, i, v) ==          \* BitFieldCell.set: every slot setter in list order
    IF i > Len(slots) THEN Ok(s)
    ELSE LET sl == slots[i]
             b  == Field(v, sl.pos, sl.len)
         IN  IF sl.k = "ref"
             THEN IF sl.key[1] = "dmawin" /\ ~ WinOk(s) THEN Oob(s)
                  ELSE ApplySlots([s EXCEPT ![ResKey(s, sl.key)] = b], slots, i + 1, v)
             ELSE IF sl.k = "restart" /\ b # 0
             THEN LET r == TRestart(s, sl.key[2])
                  IN  IF r.out # "ok" THEN r ELSE ApplySlots(r.s, slots, i + 1, v)
             ELSE ApplySlots(s, slots, i + 1, v)

Write(s, o, v) ==
    LET r == RegOf(o)
        i == r.key[2]
    IN
    CASE r.k = "store" -> Ok(CellSet(s, o, v))
      [] r.k = "const" -> Ok(s)
      [] r.k = "ro"    -> Ok(s)
      [] r.k = "ref"   -> Ok([s EXCEPT ![r.key] = v])
      [] r.k = "chsel" -> Ok([s EXCEPT ![r.key] = IF FixedChannelSelect THEN v % 8 ELSE v])
      [] r.k = "sem_mask" -> LET sig == SigOf(s[FC("sem")], v)       \* Apbp::MaskSemaphore (from_cpu): the
                                 s1  == [s EXCEPT ![FC("mask")] = v, ![FC("signal")] = sig]  \* flag follows,
                             IN  Ok(IF sig = 1 /\ s[FC("signal")] = 0 THEN Raise(s1, \h4000) ELSE s1) \* rise -> IRQ 14
      [] r.k = "bits"  -> LET a == ApplySlots(s, r.slots, 1, v)       \* then *storage = value
                          IN  IF a.out = "ok" THEN Ok(RawSet(a.s, o, v)) ELSE a
      [] r.k = "win"   -> IF WinOk(s) THEN Ok([s EXCEPT ![ResKey(s, r.key)] = v]) ELSE Oob(s)
      [] r.k = "win_z" -> IF ~ WinOk(s) THEN Oob(s)                   \* Dma::SetZ: store, start on 0x40C0;
                          ELSE LET s1 == [s EXCEPT ![ResKey(s, r.key)] = v]   \* DoDma ends with IRQ 15
                               IN  Ok(IF v = \h40C0 THEN Raise(s1, \h8000) ELSE s1)
      [] r.k = "timer_ew" -> Ok(IF v # 0 THEN TTickEvent(s, i) ELSE s)
      [] r.k = "reply" -> Ok([s EXCEPT ![FD(Dn("ready", i))] = 1, ![FD(Dn("data", i))] = v])
      [] r.k = "cmd"   -> Ok(s)
      [] r.k = "sem_set" -> LET sem == s[FD("sem")] | v                \* Apbp::SetSemaphore (from_dsp)
                            IN  Ok([s EXCEPT ![FD("sem")] = sem,
                                             ![FD("signal")] = IF s[FD("signal")] = 1 THEN 1
                                                               ELSE SigOf(sem, s[FD("mask")])])
      [] r.k = "sem_ack" -> LET sem == AndNot(s[FC("sem")], v)         \* Apbp::ClearSemaphore (from_cpu)
                            IN  Ok([s EXCEPT ![FC("sem")] = sem, ![FC("signal")] = SigOf(sem, s[FC("mask")])])
      [] r.k = "seox"  -> Ok(CellSet(s, o, v))
      [] r.k = "icu_ack"  -> Ok([s EXCEPT ![ReqK] = AndNot(s[ReqK], v)])
      [] r.k = "icu_trig" -> Ok(Raise(s, v))
      [] r.k = "bt_send"  -> IF s[K("bt", i, "qlen")] = 16 THEN Ok(s)  \* overrun: dropped
                             ELSE Ok([s EXCEPT ![K("bt", i, "qlen")] = @ + 1, ![K("bt", i, "empty")] = 0,
                                               ![K("bt", i, "full")] = IF s[K("bt", i, "qlen")] = 15 THEN 1 ELSE 0])
      [] r.k = "bt_flush" -> Ok([s EXCEPT ![K("bt", i, "qlen")] = 0, ![K("bt", i, "empty")] = 1,
                                          ![K("bt", i, "full")] = 0])

(* Read(s, o): the value MMIORegion::Read(o) returns                          *)
RECURSIVE OverlaySlots(_, _, _, _)
OverlaySlots(s, slots, i, val) ==      \* BitFieldCell.get: every slot that has a getter
    IF i > Len(slots) THEN val
    ELSE LET sl == slots[i]
         IN  OverlaySlots(s, slots, i + 1,
                 CASE sl.k \in { "ref", "ro" } -> Overlay(val, sl.pos, sl.len, s[ResKey(s, sl.key)])
                   [] sl.k = "restart"         -> Overlay(val, sl.pos, sl.len, 0)
                   [] OTHER                    -> val)

Read(s, o) ==
    LET r == RegOf(o)
        i == r.key[2]
    IN
    CASE r.k = "store" -> CellGet(s, o)
      [] r.k = "const" -> r.key[2]
      [] r.k \in { "ro", "ref", "chsel", "sem_mask" } -> s[r.key]
      [] r.k = "bits"  -> IF o = \h1DA /\ ~ WinOk(s) THEN OOB
                          ELSE OverlaySlots(s, r.slots, 1, RawGet(s, o))
      [] r.k \in { "win", "win_z" } -> IF WinOk(s) THEN s[ResKey(s, r.key)] ELSE OOB
      [] r.k = "reply" -> s[FD(Dn("data", i))]              \* PeekData
      [] r.k = "cmd"   -> s[FC(Dn("data", i))]              \* RecvData (see ReadEffect)
      [] r.k = "sem_set" -> s[FD("sem")]
      [] r.k = "seox"  -> \hFFFF
      [] r.k = "bt_send" -> CellGet(s, o)                   \* never written by anything: 0
      [] r.k \in { "timer_ew", "sem_ack", "icu_ack", "icu_trig", "bt_flush" } -> 0

\* the state after MMIORegion::Read(o): only CMDx (RecvData) clears its ready flag
ReadEffect(s, o) == IF o \in CmdOffs THEN [s EXCEPT ![FC(Dn("ready", (o - \hC2) \div 4))] = 0] ELSE s

-----------------------------------------------------------------------------
(* The host side of the mailbox (Teakra::SendData, RecvData, SetSemaphore,    *)
(* ClearSemaphore, MaskSemaphore, GetSemaphore), just far enough to feed the  *)
(* DSP-side registers CMDx, GET_SEMAPHORE and the ready/signal flags.         *)
HostSend(s, i, v) ==       \* apbp_from_cpu.SendData -> handler -> IRQ 14 unless disabled
    LET s1 == [s EXCEPT ![FC(Dn("ready", i))] = 1, ![FC(Dn("data", i))] = v]
    IN  IF s[FC(Dn("dis", i))] # 0 THEN s1 ELSE Raise(s1, \h4000)
HostRecv(s, i)    == [s EXCEPT ![FD(Dn("ready", i))] = 0]      \* returns s[FD(data i)]
HostSetSem(s, v)  ==       \* apbp_from_cpu.SetSemaphore: the handler runs whenever the result is unmasked
    LET sem == s[FC("sem")] | v
        sig == SigOf(sem, s[FC("mask")])
        s1  == [s EXCEPT ![FC("sem")] = sem, ![FC("signal")] = IF s[FC("signal")] = 1 THEN 1 ELSE sig]
    IN  IF sig = 1 THEN Raise(s1, \h4000) ELSE s1
HostClrSem(s, v)  == LET sem == AndNot(s[FD("sem")], v)
                     IN  [s EXCEPT ![FD("sem")] = sem, ![FD("signal")] = SigOf(sem, s[FD("mask")])]
HostMaskSem(s, v) == [s EXCEPT ![FD("mask")] = v, ![FD("signal")] = SigOf(s[FD("sem")], v)]

-----------------------------------------------------------------------------
(* The two access paths (memory_interface.cpp, MemoryInterfaceUnit)           *)
HostOff(a)       == a % \h800                                   \* MMIORead/MMIOWrite: any mirror
Base(s)          == s[K("miu", 0, "mmio_base")]
InWindow(s, a)   == a >= Base(s) /\ a < Base(s) + \h800          \* InMMIO; a is a 16-bit address
GuestOff(s, a)   == (a - Base(s)) % \h800                        \* ToMMIO (asserts z_page = 0)
GuestBlocked(s)  == s[K("miu", 0, "z_page")] # 0
\* a guest access outside the window goes to data memory through ConvertDataAddress
ConvertOut(s, a) ==
    IF s[K("miu", 0, "page_mode")] = 0
    THEN (IF s[K("miu", 0, "z_page")] < 2 THEN "ok" ELSE "assert")
    ELSE IF a <= s[K("miu", 0, "x_size")] * \h400
         THEN (IF s[K("miu", 0, "x_page")] < 2 THEN "ok" ELSE "assert")
         ELSE (IF s[K("miu", 0, "y_page")] < 2 THEN "ok" ELSE "assert")

\* [s, out, off]: a write through path p ("h" host accessor, "g" DSP data access) at address a;
\* off = 0x800 when the access does not reach the register file
WithOff(w, off) == [s |-> w.s, out |-> w.out, off |-> off]
AccessWrite(s, p, a, v) ==
    IF p = "h" THEN WithOff(Write(s, HostOff(a), v), HostOff(a))
    ELSE IF ~ InWindow(s, a) THEN [s |-> s, out |-> ConvertOut(s, a), off |-> \h800]
    ELSE IF GuestBlocked(s)  THEN WithOff(Abort(s), GuestOff(s, a))
    ELSE WithOff(Write(s, GuestOff(s, a), v), GuestOff(s, a))
\* [s, out, off, r]
AccessRead(s, p, a) ==
    LET off == IF p = "h" THEN HostOff(a) ELSE GuestOff(s, a)
    IN  IF p = "g" /\ GuestBlocked(s) THEN [s |-> s, out |-> "assert", off |-> off, r |-> 0]
        ELSE [s |-> ReadEffect(s, off), out |-> "ok", off |-> off, r |-> Read(s, off)]

-----------------------------------------------------------------------------
(* Property layer (C12)                                                      *)

RECURSIVE RoMaskSum(_, _)
RoMaskSum(slots, i) == IF i > Len(slots) THEN 0
                       ELSE (IF slots[i].k \in { "ro", "restart" } THEN SlotMask(slots[i].pos, slots[i].len) ELSE 0)
                            + RoMaskSum(slots, i + 1)
\* bits of offset o that the table marks writable-and-readable: a write of v must read back v there
RWMask(o) ==
    LET r == RegOf(o) IN
    CASE r.k \in { "store", "ref", "win", "win_z", "reply", "sem_mask" } -> \hFFFF
      [] r.k = "chsel" -> IF FixedChannelSelect THEN 7 ELSE \hFFFF
      [] r.k = "bits" -> \hFFFF - RoMaskSum(r.slots, 1)
      [] OTHER -> 0      \* const, status, trigger, write-1-to-set / write-1-to-clear registers
DocMask(o) == RegOf(o).dm
\* every bit the documentation names as a read/write field is one the table reads back
DocMaskCovered == \A o \in DocOffs : AndNot(DocMask(o), RWMask(o)) = 0

(* The documented couplings: <<A, B>> = a write to A may change the read-back *)
(* of B.  Everything else must be frame.                                      *)
Coupled ==
       { <<\h20 + \h10 * i, \h28 + \h10 * i + 2 * j>> : i \in 0..1, j \in 0..1 }   \* CFG.RES restart -> counter mirror
  \cup { <<\h22 + \h10 * i, \h28 + \h10 * i + 2 * j>> : i \in 0..1, j \in 0..1 }   \* EW event tick  -> counter mirror
  \cup { <<\h22 + \h10 * i, \h200>> : i \in 0..1 }                                 \* ... reaching 0 -> IRQ pending
  \cup { <<\hC0 + 4 * i, st>> : i \in 0..2, st \in { \hD6, \hD8 } }                 \* REPLYx -> data-ready flags
  \cup { <<\hD0, b>> : b \in { \hD2, \hD6, \hD8 } }                                \* ACK_SEMAPHORE -> GET_SEMAPHORE, S
  \cup { <<\hCE, b>> : b \in { \hD6, \hD8, \h200 } }                               \* MASK_SEMAPHORE -> S, rise -> IRQ 14
  \cup { <<\h1BE, w>> : w \in WindowOffs }                                         \* channel select -> the window
  \cup { <<\h1DE, \h200>> }                                                        \* DMA start -> IRQ 15 pending
  \cup { <<\h202, \h200>>, <<\h204, \h200>> }                                      \* acknowledge / trigger
  \cup { <<\h2C6 + \h80 * i, \h2C2 + \h80 * i>> : i \in 0..1 }                     \* FIFO send  -> full/empty
  \cup { <<\h2CA + \h80 * i, \h2C2 + \h80 * i>> : i \in 0..1 }                     \* FIFO flush -> full/empty
\* a READ of A may change the read-back of B (mailbox receive)
ReadCoupled == { <<c, st>> : c \in CmdOffs, st \in { \hD6, \hD8 } }
\* MMIO window relocation (0x11E) and ZPAGE (0x112) change no read-back; they change which guest
\* addresses reach the register file (InWindow / GuestBlocked).

Watch == DocOffs \cup SampleOffs

\* (i) read-back
ReadBackAt(s, A, v) ==
    LET w == Write(s, A, v) IN
    /\ w.out = "ok" => (Read(w.s, A) & RWMask(A)) = (v & RWMask(A))
    /\ A = \hCC => Read(w.s, A) = (Read(s, A) | v)          \* SET_SEMAPHORE accumulates
\* (ii) non-aliasing, whatever the outcome of the write
NonAliasingAt(s, A, v) ==
    LET w == Write(s, A, v) IN
    \A B \in Watch \ { A } : <<A, B>> \notin Coupled => Read(w.s, B) = Read(s, B)
\* the same with the read-backs of s tabulated beforehand: rd = [B \in Watch |-> Read(s, B)]
NonAliasingTab(s, rd, A, v) ==
    LET w == Write(s, A, v) IN
    \A B \in Watch \ { A } : <<A, B>> \notin Coupled => Read(w.s, B) = rd[B]
\* ... and of the state that no register shows directly (timer counters, unselected DMA channels,
\* queue lengths): a write changes only its own device
Touches(A) == LET k == RegOf(A).k  d == RegOf(A).key[1] IN
    IF A \in WindowOffs THEN { "dma", "cell", "icu" }
    ELSE IF A \in { \h20, \h22, \h30, \h32 } THEN { "timer", "cell", "icu" }
    ELSE IF k \in { "ref", "chsel" } THEN { d }
    ELSE IF k = "sem_mask" THEN { "apbp", "icu" }
    ELSE IF k \in { "reply", "sem_set", "sem_ack", "cmd" } THEN { "apbp" }
    ELSE IF k \in { "icu_ack", "icu_trig" } THEN { "icu" }
    ELSE IF k \in { "bt_send", "bt_flush" } THEN { "bt" }
    ELSE IF k = "bits" THEN { "cell", "apbp", "ahbm", "miu", "icu" }
    ELSE { "cell" }
HiddenFrameAt(s, A, v) ==
    LET w == Write(s, A, v) IN
    \A k \in DOMAIN w.s : w.s[k] # (IF k \in DOMAIN s THEN s[k] ELSE 0) =>
        /\ w.s[k] \in 0..65535
        /\ k[1] \in Touches(A)
        /\ k[1] = "timer" => k[2] = (IF A >= \h30 THEN 1 ELSE 0)
        /\ k[1] = "dma"   => k[2] = s[ActiveK]
        /\ k[1] = "bt"    => k[2] = (IF A >= \h300 THEN 1 ELSE 0)
        /\ k[1] = "cell"  => k[2] = A
        /\ k[1] = "icu"   => (k = ReqK \/ RegOf(A).k \in { "bits", "ref" })
\* reads are pure except the mailbox receive
ReadPurityAt(s, A) ==
    /\ A \notin CmdOffs => ReadEffect(s, A) = s
    /\ \A B \in Watch : <<A, B>> \notin ReadCoupled => Read(ReadEffect(s, A), B) = Read(s, B)

\* (iii) the eight channel windows are independent: writing window register A of channel c changes no
\* channel d # c, as seen through the window after selecting d, and channel c keeps the value.
\* m(W) = the bits compared: DocMask(W) (documented fields) or 0xFFFF (whole register, strict form)
ChannelIndependentAt(s, A, v, strict, CS) ==
    \A c \in CS, d \in 0..7 : c # d =>
        LET m(W) == IF strict THEN RWMask(W) ELSE DocMask(W)
            sc  == Write(s, \h1BE, c).s
            s1  == Write(sc, A, v).s
            sd  == Write(s1, \h1BE, d).s
            sd0 == Write(s, \h1BE, d).s
            sc2 == Write(sd, \h1BE, c).s
        IN  /\ \A W \in WindowOffs : (Read(sd, W) & m(W)) = (Read(sd0, W) & m(W))
            /\ (Read(sc2, A) & m(A)) = (v & m(A))
            /\ \A ch \in 0..7 \ { c }, f \in DmaFields : s1[<<"dma", ch, f>>] = sc[<<"dma", ch, f>>]

\* ... and whatever is written to the channel select, the window stays a window onto one of the eight
\* channels (violated by the code before the 3-bit fix: MC_Mmio_pinned_chsel.cfg)
WindowReachableAt(s, v) ==
    LET s1 == Write(s, \h1BE, v).s IN
    /\ s1[ActiveK] \in 0..7
    /\ \A W \in WindowOffs : Read(s1, W) # OOB /\ Write(s1, W, 0).out # "oob"

\* (iv) both paths and every mirror reach the same register
PathsAgreeAt(s, A) ==
    /\ \A m \in 0..31 : HostOff(A + \h800 * m) = A
    /\ Base(s) + A <= \hFFFF => (InWindow(s, Base(s) + A) /\ GuestOff(s, Base(s) + A) = A)
    /\ \A v \in { 0, \hFFFF } :
          LET h == AccessWrite(s, "h", A + \h800 * ((A \div 2) % 32), v)
              g == AccessWrite(s, "g", Base(s) + A, v)
          IN  (Base(s) + A <= \hFFFF /\ ~ GuestBlocked(s)) => (h.s = g.s /\ h.out = g.out /\ h.off = g.off)

\* no documented field value may stop the emulator (strict; the pinned code violates it: see
\* FixedWatchdogRestart)
NoAbortAt(s, A, v) == Write(s, A, v).out # "assert"
=============================================================================
