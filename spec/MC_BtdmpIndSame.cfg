CONSTANTS Cap = 4  TW = 8  ResetPeriod = 2  FixedSkipOverrun = TRUE  Vals = {0, 1}  Periods = {0}  Clocks = {0}  K = 40  G = 0  PhaseKept = FALSE
INIT InitSame
NEXT NextSame
INVARIANT Same
CHECK_DEADLOCK FALSE
