CONSTANTS Lo = 0  Hi = 65535
INIT Init
NEXT Next
INVARIANTS Inv
