\* the pinned code: the MMIO writes of ICU::vector_low/high/context_switch are plain stores by the DSP thread,
\* ICU::Trigger reads them under the ICU mutex on the host thread (vectored delivery of irq 14 on).
CONSTANTS
  Chans = {0}
  SemFull = 3
  FixedDisableIrqLock = TRUE
  FixedVectorLock = FALSE
  HandlerInsideLock = FALSE
  VectoredOn = TRUE
  NSend = 1
  NHostOps = 0
  SemVals = {1}
  NDis = 0
  NVec = 1
  NCbSend = 0
  HostKinds = {"Empty", "PollRecv", "SemSet", "SemGet", "SemClr", "SemMask"}
  NDspMask = 0
  TrackLockset = TRUE
SPECIFICATION Spec
INVARIANTS ValuesOK LocksetOK
CHECK_DEADLOCK TRUE
