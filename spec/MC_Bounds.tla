---- MODULE MC_Bounds ----
EXTENDS BoundsTheorems
Known == {"fetch_prpage", "fetch_past_end", "movpdw/Ax"}
None == {}
====
