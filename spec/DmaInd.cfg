CONSTANTS B16 = 65536
INIT Init
NEXT Next
INVARIANT Lemmas
