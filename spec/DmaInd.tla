------------------------------- MODULE DmaInd -------------------------------
(* C13 at FULL width, symbolically (Apalache/SMT): the counter/cursor loop of Dma::Channel::Tick walks exactly the    *)
(* closed-form 3-D strided element sequence of dma.md, for ALL 16-bit sizes (0 = 1), ALL 16-bit steps, both element     *)
(* widths and all 32-bit start addresses -- by induction over the ticks of one transfer:                                *)
(*   Base:  Start puts the channel at element 0.                                                                        *)
(*   Step:  if the running channel is at element k = i0 + N0 (i1 + N1 i2) with cursor addr(k), one Tick moves it to      *)
(*          element k + 1 with cursor addr(k + 1) (wrapping at 2^32) -- or stops, and it stops exactly at the last        *)
(*          element k = N0 N1 N2 - 1.                                                                                     *)
(*   where addr(k) = base + (k - rows) step0 + (rows - planes) step1 + planes step2, rows = k div N0,                    *)
(*   planes = k div (N0 N1)  (Dma.tla!ElemAddr).  In the invariant rows = i1 + N1 i2 and planes = i2; Floor states       *)
(*   that these ARE the two floor divisions (rows N0 <= k < (rows + 1) N0, ...).                                          *)
(* The loop is Dma.tla!Step with the repaired 32-bit dimension-0 counter (FixedD8), cursors as integers mod 2^32;        *)
(* MC_DmaIndSame.cfg: TLC compares it with Dma.tla!Step / StartOp for all channel states at a scaled base.               *)
EXTENDS Integers

CONSTANT
    \* @type: Int;
    B16              \* 65536: counter/size/step width (a small base in MC_DmaIndSame.cfg)

VARIABLES
    \* @type: Int;
    sa,
    \* @type: Int;
    z0,
    \* @type: Int;
    z1,
    \* @type: Int;
    z2,
    \* @type: Int;
    s0,
    \* @type: Int;
    s1,
    \* @type: Int;
    s2,
    \* @type: Int;
    dw,
    \* @type: Int;
    c0,
    \* @type: Int;
    c1,
    \* @type: Int;
    c2,
    \* @type: Int;
    cs,
    \* @type: Int;
    vR,
    \* @type: Int;
    vP

M32 == B16 * B16       \* cursor modulus (2^32)

\* @type: (Int, Int) => Int;
Mx(a, b) == IF a > b THEN a ELSE b
Inc == IF dw # 0 THEN 2 ELSE 1
N0 == IF dw # 0 THEN (Mx(z0, 1) + 1) \div 2 ELSE Mx(z0, 1)
N1 == Mx(z1, 1)
N2 == Mx(z2, 1)

\* Dma.tla!Step on (c0, c1, c2, cs): [c0, c1, c2, cs, run]
\* @type: (Int, Int, Int, Int) => { c0: Int, c1: Int, c2: Int, cs: Int, run: Int };
Step(k0, k1, k2, cur) ==
    LET n0 == k0 + Inc
        n1 == (k1 + 1) % B16
        n2 == (k2 + 1) % B16
    IN  IF n0 >= z0
        THEN IF n1 >= z1
             THEN IF n2 >= z2
                  THEN [c0 |-> 0, c1 |-> 0, c2 |-> n2, cs |-> cur, run |-> 0]
                  ELSE [c0 |-> 0, c1 |-> 0, c2 |-> n2, cs |-> (cur + s2) % M32, run |-> 1]
             ELSE [c0 |-> 0, c1 |-> n1, c2 |-> k2, cs |-> (cur + s1) % M32, run |-> 1]
        ELSE [c0 |-> n0, c1 |-> k1, c2 |-> k2, cs |-> (cur + s0) % M32, run |-> 1]

\* position of the channel in the element sequence and the closed-form cursor there
\* @type: (Int, Int, Int) => Int;
Index(k0, k1, k2) == (k0 \div Inc) + N0 * (k1 + N1 * k2)
\* the address offset of element (i0, i1, i2) written with the row stride vR and the plane stride vP:
\*     vR = (N0 - 1) step0 + step1      (a full row, then the row step)
\*     vP = (N0 - 1) step0 + (N1 - 1) vR + step2   (a full plane, then the plane step)
Strides == vR = (N0 - 1) * s0 + s1 /\ vP = (N0 - 1) * s0 + (N1 - 1) * vR + s2
\* @type: (Int, Int, Int) => Int;
Off(i0, i1, i2) == i0 * s0 + i1 * vR + i2 * vP
\* ... and as Dma.tla!ElemAddr has it (rows = i1 + N1 i2 completed rows, planes = i2 completed planes)
\* @type: (Int, Int, Int) => Int;
OffDoc(i0, i1, i2) == LET rows == i1 + N1 * i2 IN (i0 + (N0 - 1) * rows) * s0 + (rows - i2) * s1 + i2 * s2
\* @type: (Int, Int, Int) => Int;
Addr(k0, k1, k2) == (sa + Off(k0 \div Inc, k1, k2)) % M32
\* @type: (Int, Int, Int, Int) => Bool;
At(k0, k1, k2, cur) ==
    /\ k0 % Inc = 0 /\ k0 \div Inc < N0 /\ k1 < N1 /\ k2 < N2 /\ k0 >= 0 /\ k1 >= 0 /\ k2 >= 0
    /\ cur = Addr(k0, k1, k2)

Init == \E a \in 0 .. M32 - 1, y0 \in 0 .. B16 - 1, y1 \in 0 .. B16 - 1, y2 \in 0 .. B16 - 1, t0 \in 0 .. B16 - 1, t1 \in 0 .. B16 - 1, t2 \in 0 .. B16 - 1,
           d \in 0 .. 1, k0 \in 0 .. B16, k1 \in 0 .. B16 - 1, k2 \in 0 .. B16 - 1, cur \in 0 .. M32 - 1 :
            /\ sa = a /\ z0 = y0 /\ z1 = y1 /\ z2 = y2 /\ s0 = t0 /\ s1 = t1 /\ s2 = t2 /\ dw = d
            /\ c0 = k0 /\ c1 = k1 /\ c2 = k2 /\ cs = cur
            /\ \E r \in 0 .. 2 * M32 : \E p \in 0 .. 2 * M32 * B16 : vR = r /\ vP = p /\ Strides
Next == UNCHANGED <<sa, z0, z1, z2, s0, s1, s2, dw, c0, c1, c2, cs, vR, vP>>

\* Start: counters 0, cursor = start address
BaseLemma == At(0, 0, 0, sa) /\ Index(0, 0, 0) = 0
\* one Tick = one increment of the mixed-radix counter (i0, i1, i2) with radices (N0, N1, N2), cursor kept at Addr;
\* the channel stops exactly on the last digit triple
\* @type: (Int, Int, Int, Int, Int, Int) => Bool;
Succ(i0, i1, i2, j0, j1, j2) ==
    \/ (i0 < N0 - 1 /\ j0 = i0 + 1 /\ j1 = i1 /\ j2 = i2)
    \/ (i0 = N0 - 1 /\ i1 < N1 - 1 /\ j0 = 0 /\ j1 = i1 + 1 /\ j2 = i2)
    \/ (i0 = N0 - 1 /\ i1 = N1 - 1 /\ i2 < N2 - 1 /\ j0 = 0 /\ j1 = 0 /\ j2 = i2 + 1)
StepLemma ==
    At(c0, c1, c2, cs) =>
        LET r == Step(c0, c1, c2, cs) IN
        /\ r.run = 1 => (At(r.c0, r.c1, r.c2, r.cs) /\ Succ(c0 \div Inc, c1, c2, r.c0 \div Inc, r.c1, r.c2))
        /\ (r.run = 0) <=> (c0 \div Inc = N0 - 1 /\ c1 = N1 - 1 /\ c2 = N2 - 1)
\* the successor triple is the next element number; the last triple is element N0 N1 N2 - 1
\* (digits quantified through the state variables c0 = j0, c1 = i1, c2 = i2 and dw/z*: here c0 stands for a digit, not a counter)
IndexSucc ==
    LET i0 == c0  i1 == c1  i2 == c2
        K(a0, a1, a2) == a0 + N0 * (a1 + N1 * a2)
    IN  (i0 < N0 /\ i1 < N1 /\ i2 < N2) =>
            /\ (i0 < N0 - 1 => K(i0 + 1, i1, i2) = K(i0, i1, i2) + 1)
            /\ ((i0 = N0 - 1 /\ i1 < N1 - 1) => K(0, i1 + 1, i2) = K(i0, i1, i2) + 1)
            /\ ((i0 = N0 - 1 /\ i1 = N1 - 1 /\ i2 < N2 - 1) => K(0, 0, i2 + 1) = K(i0, i1, i2) + 1)
            /\ ((i0 = N0 - 1 /\ i1 = N1 - 1 /\ i2 = N2 - 1) => K(i0, i1, i2) = N0 * N1 * N2 - 1)
\* rows and planes of the invariant are the floor divisions of the closed form
Floor ==
    At(c0, c1, c2, cs) =>
        LET k == Index(c0, c1, c2)  rows == c1 + N1 * c2 IN
        /\ rows * N0 <= k /\ k < (rows + 1) * N0
        /\ c2 * (N0 * N1) <= k /\ k < (c2 + 1) * (N0 * N1)
\* the two ways of writing the offset agree (a polynomial identity, multilinear in i0, i1, i2, N0, N1 and the steps)
OffsetForms == (c0 % Inc = 0 /\ c0 \div Inc < N0 /\ c1 < N1 /\ c2 < N2) => Off(c0 \div Inc, c1, c2) = OffDoc(c0 \div Inc, c1, c2)
Lemmas == BaseLemma /\ StepLemma /\ IndexSucc /\ Floor /\ OffsetForms
=============================================================================
