CONSTANT ResetSet <- PinnedResetSet
SPECIFICATION Spec
INVARIANT ResetIsFresh
