CONSTANTS SemW = 16  MaxDepth = 4  FixedReentry = TRUE
SPECIFICATION TraceSpec
INVARIANTS SignalOK SignalOKInside FireOnlyWhenSet
POSTCONDITION TraceAccepted
CHECK_DEADLOCK FALSE
