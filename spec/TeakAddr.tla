------------------------------- MODULE TeakAddr -------------------------------
(* Address generation of the core (interpreter.h: StepAddress, RnAndModify, RnAddress, OffsetAddress,  *)
(* ConvertArStep and the ar/arp indirection), as-is.  `r` is the register record of TeakRegs, units     *)
(* are 0..7 (r0..r7), a step is the StepValue number 0 Zero, 1 Increase, 2 Decrease, 3 PlusStep,        *)
(* 4/5 +-2 mode 1, 6/7 +-2 mode 2.  Property layer (C10): AddrTheorems.tla.                              *)
EXTENDS TeakRegs

U16(x)  == x % B
Mask16(n) == (2 ^ n - 1) % B                  \* (u16)((1 << n) - 1)
AndNot(a, m) == a - (a & m)                   \* a & ~m

IsI(unit) == unit < 4
ModOf(r, unit)    == IF IsI(unit) THEN r.modi ELSE r.modj
StepOf(r, unit)   == IF IsI(unit) THEN r.stepi ELSE r.stepj
Step0Of(r, unit)  == IF IsI(unit) THEN r.stepi0 ELSE r.stepj0
Legacy(r)         == r.cmd # 0
Mflag(r, unit)    == r.m[unit + 1] # 0
BRflag(r, unit)   == r.br[unit + 1] # 0

\* the step amount s (16-bit two's complement) a StepValue denotes
StepAmount(r, unit, step) ==
    CASE step = 0 -> 0
      [] step = 1 -> 1
      [] step = 2 -> B - 1
      [] step \in {4, 6} -> 2
      [] step \in {5, 7} -> B - 2
      [] step = 3 ->
           LET s1 == IF BRflag(r, unit) /\ ~ Mflag(r, unit) THEN Step0Of(r, unit) ELSE Sx(StepOf(r, unit), 7)
           IN  IF r.stp16 = 1 /\ ~ Legacy(r)
               THEN (IF Mflag(r, unit) THEN Sx(Step0Of(r, unit), 9) ELSE Step0Of(r, unit))
               ELSE s1

\* one modular step in the TeakLite-compatible (legacy) / step2-mode2 algorithm
ModStepLegacy(address, s, mod, mode2) ==
    LET negative == s >= HB
        mm   == mod | (IF negative THEN B - 1 - s ELSE s)
        mask == Mask16(Log2p1(mm))
        wrap == ~ mode2 \/ mod # mask
        next == IF ~ negative
                THEN (IF (address & mask) = mod /\ wrap THEN 0 ELSE U16(address + s) & mask)
                ELSE (IF (address & mask) = 0 /\ wrap THEN mod ELSE U16(address + s) & mask)
    IN  AndNot(address, mask) | next

\* one modular step in the Teak-native algorithm
ModStepTeak(address, s, mod) ==
    LET mask == Mask16(Log2p1(mod))
        next == IF s < HB
                THEN (LET n == U16(address + s) & mask IN IF n = (U16(mod + 1) & mask) THEN 0 ELSE n)
                ELSE (LET n0 == address & mask
                          n1 == IF n0 = 0 THEN U16(mod + 1) ELSE n0
                      IN  U16(n1 + s) & mask)
    IN  AndNot(address, mask) | next

\* Interpreter::StepAddress
StepAddress(r, unit, address, step, dmod) ==
    LET s0    == StepAmount(r, unit, step)
        mode1 == step \in {4, 5} /\ ~ Legacy(r)
        mode2 == step \in {6, 7} /\ ~ Legacy(r)
        mod   == ModOf(r, unit)
    IN  IF s0 = 0 THEN address
        ELSE IF ~ dmod /\ ~ BRflag(r, unit) /\ Mflag(r, unit)
        THEN IF mod = 0 THEN address
             ELSE IF mod = 1 /\ mode2 THEN address
             ELSE LET s  == IF mode1 THEN (IF s0 = 2 THEN 1 ELSE B - 1) ELSE s0     \* SignExtend<15>(s >> 1)
                      one(a) == IF Legacy(r) \/ mode2 THEN ModStepLegacy(a, s, mod, mode2) ELSE ModStepTeak(a, s, mod)
                  IN  IF mode1 THEN one(one(address)) ELSE one(address)
        ELSE U16(address + s0)

\* Interpreter::RnAndModify: the value used (pre-modification) and the register file afterwards
RnAndModify(r, unit, step, dmod) ==
    LET old == r.r[unit + 1]
        ep  == (unit = 3 /\ r.epi # 0) \/ (unit = 7 /\ r.epj # 0)
        new == IF ep /\ step \notin {4, 5, 6, 7} THEN 0 ELSE StepAddress(r, unit, old, step, dmod)
    IN  [val |-> old, r |-> [r EXCEPT !.r[unit + 1] = new]]

\* Interpreter::RnAddress
RnAddress(r, unit, value) == IF BRflag(r, unit) /\ ~ Mflag(r, unit) THEN BitReverse16(value) ELSE value

\* Interpreter::OffsetAddress.  offset: 0 Zero, 1 PlusOne, 2 MinusOne, 3 MinusOneDmod.
\* Result: [a |-> address, ok |-> FALSE when the code throws UnimplementedException]
OffsetAddress(r, unit, address, offset, dmod) ==
    LET emod == Mflag(r, unit) /\ ~ BRflag(r, unit) /\ ~ dmod
        mod  == ModOf(r, unit)
        mask == IF mod = 0 THEN 1 ELSE Mask16(Log2p1(mod)) | 1      \* OR of mod >> i, i < 9, and 1
    IN  CASE offset = 0 -> [a |-> address, ok |-> TRUE]
          [] offset = 3 -> [a |-> U16(address + B - 1), ok |-> TRUE]
          [] offset = 1 -> [a |-> IF ~ emod THEN U16(address + 1)
                                  ELSE IF (address & mask) = mod THEN AndNot(address, mask)
                                  ELSE U16(address + 1), ok |-> TRUE]
          [] offset = 2 -> [a |-> U16(address + B - 1), ok |-> ~ emod]

\* ar/arp indirection (GetArRnUnit, GetArStep, GetArOffset, GetArpRnUnit, GetArpStep, GetArpOffset).
\* idx are the operand's Index() values (0-based)
ArUnit(r, idx)    == r.arrn[idx + 1]
ArStep(r, idx)    == r.arstep[idx + 1]
ArOffset(r, idx)  == r.aroffset[idx + 1]
ArpUnitI(r, idx)  == r.arprni[idx + 1]
ArpUnitJ(r, idx)  == r.arprnj[idx + 1] + 4
ArpStepI(r, idx)  == r.arpstepi[idx + 1]
ArpStepJ(r, idx)  == r.arpstepj[idx + 1]
ArpOffsetI(r, idx) == r.arpoffseti[idx + 1]
ArpOffsetJ(r, idx) == r.arpoffsetj[idx + 1]
=============================================================================
