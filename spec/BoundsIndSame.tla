---------------------------- MODULE BoundsIndSame ----------------------------
(* BoundsInd's operators on plain variables ARE TeakMachine's operators on the machine record: compared by TLC on   *)
(* the boundary set of addresses and MIU register contents.                                                         *)
EXTENDS TeakMachine, TLC
I == INSTANCE BoundsInd WITH va <- 0, vbase <- 0, vpm <- 0, vz <- 0, vxp <- 0, vyp <- 0, vxs <- 0, va32 <- 0
VARIABLE vC
Addrs == {0, 1, 1023, 1024, 1025, 2047, 2048, 32767, 32768, 32769, 34815, 34816, 63487, 63488, 64511, 64512, 65534, 65535}
Bases == {0, 1, 2048, 32768, 63488, 63489, 65535}
Pages == {0, 1, 2, 3, 16383}        \* (TLC integers are 32-bit: 65536 * page must fit)
Init == vC \in Bases \X (0 .. 1)
Next == UNCHANGED vC
Same ==
    \A a \in Addrs : \A z \in Pages : \A xp \in Pages : \A yp \in Pages : \A xs \in {0, 1, 32, 63} :
        LET s == [miu |-> [MiuReset EXCEPT !.base = vC[1], !.pm = vC[2], !.z = z, !.xp = xp, !.yp = yp, !.xs = <<xs, 32>>]] IN
        /\ I!InMMIO(a, vC[1]) <=> InMMIO(s, a)
        /\ I!DataPage(a, vC[2], z, xp, yp, xs) = DataPage(s, a)
        /\ I!DataPhys(a, vC[1], vC[2], z, xp, yp, xs) = DataPhys(s, a)
        /\ I!DAsserts(a, vC[1], vC[2], z, xp, yp, xs) <=> DAsserts(s, a)
        /\ I!MemWords = MemWords /\ I!DataBase = DataBase /\ I!MmioBase = MmioBase
=============================================================================
