-------------------------------- MODULE Dma --------------------------------
(* The DMA engine (src/dma.cpp, src/dma.h, src/dma.md) on top of Ahbm.tla.    *)
(*                                                                            *)
(* as-is layer: Channel::Start, Channel::Tick and Dma::DoDma exactly as       *)
(* coded.  A channel is a record                                              *)
(*   sa da      addr_src / addr_dst  <<high,low>>   (wide, base B)            *)
(*   z0 z1 z2   size0..2      ss ds  <<step0,step1,step2>> source/destination *)
(*   sp dp      src_space / dst_space (0 DSP data memory, 7 AHBM, others      *)
(*              transfer nothing and read 0)        dw  dword_mode            *)
(*   cs cd      current_src / current_dst (32-bit cursors, wide)              *)
(*   c0 c1 c2   the three u16 counters (one limb: they wrap at B)             *)
(*   run        running        ach  ahbm_channel                              *)
(* One Tick = one element: TickOp(ch, ah, vals) where vals are the values the *)
(* environment returned for the reads of that tick (ReadReqs), result = new   *)
(* channel, new AHBM state and the ordered events of the tick.                *)
(*                                                                            *)
(* property layer: the closed-form 3-D element sequence of dma.md and what    *)
(* C13 states about it (bottom of the file).                                  *)
EXTENDS Ahbm, TLC

CONSTANTS
    FixedD8,    \* FALSE: counter0 is a u16 and `counter0 += 2` wraps (as pinned, defect D8);
                \* TRUE: counter0 does not wrap before the comparison (the proposed repair)
    RealMap,    \* TRUE: DSP accesses go to byte address 2*(0x20000 + cursor) mod 2^32 as coded and
                \*       only [RangeLo*B, RangeHi*B) is data memory; FALSE (scaled models): the
                \*       cursor is the cell and every cursor is inside the data memory
    DataHi, RangeLo, RangeHi,   \* 2, 4, 8 at B = 65536
    HB          \* a divisor of B used to split 16x16-bit products (256 at B = 65536)

-----------------------------------------------------------------------------
(* as-is layer                                                                *)

\* Dma::Channel::Start followed by the ahbm_channel assignment of DoDma
StartOp(ch, ach) ==
    [ch EXCEPT !.run = 1, !.cs = ch.sa, !.cd = ch.da, !.c0 = 0, !.c1 = 0, !.c2 = 0, !.ach = ach]

\* SharedMemory::ReadWord/WriteWord(DataMemoryOffset + cursor): the byte address that reaches raw[]
DspByte(c) == IF RealMap THEN LET w == WAdd(<<DataHi, 0>>, c) IN WAdd(w, w) ELSE c
DspOk(c)   == ~ RealMap \/ (DspByte(c)[1] >= RangeLo /\ DspByte(c)[1] < RangeHi)
DspRdReq(c) == <<IF DspOk(c) THEN KDspR ELSE KOobR, DspByte(c)>>
DspRdVal(c, v) == IF DspOk(c) THEN v[2] ELSE 0          \* a vetoed read returns 0 (hook)
DspWrEv(c, w) == <<IF DspOk(c) THEN KDspW ELSE KOobW, DspByte(c), W16(w)>>

\* the reads one Tick issues, <<kind, address>>, in order.  (Double-word DSP source: the code reads
\* `ReadWord(l) | (ReadWord(h) << 16)`; C++ leaves the order of the two calls unspecified, the build
\* under test (g++ -O1) reads l first, and so does this transcription.)
ReadReqs(ch, ah) ==
    IF ch.sp = 0 THEN
        IF ch.dw # 0 THEN <<DspRdReq(Align2(ch.cs)), DspRdReq(OrOne(ch.cs))>>
        ELSE <<DspRdReq(ch.cs)>>
    ELSE IF ch.sp = 7 THEN ReadReqs32(ah[ch.ach], ch.cs)
    ELSE <<>>

ReqEvents(reqs, vals) == [i \in 1..Len(reqs) |-> <<reqs[i][1], reqs[i][2],
                                                   IF reqs[i][1] = KOobR THEN WZero ELSE vals[i]>>]

\* the counter/cursor update at the end of Tick
Step(ch) ==
    LET inc == IF ch.dw # 0 THEN 2 ELSE 1
        n0  == IF FixedD8 THEN ch.c0 + inc ELSE (ch.c0 + inc) % B
        n1  == (ch.c1 + 1) % B
        n2  == (ch.c2 + 1) % B
        Adv(k) == [ch EXCEPT !.cs = WAdd(ch.cs, <<0, ch.ss[k]>>), !.cd = WAdd(ch.cd, <<0, ch.ds[k]>>)]
    IN  IF n0 >= ch.z0
        THEN IF n1 >= ch.z1
             THEN IF n2 >= ch.z2
                  THEN [ch EXCEPT !.c0 = 0, !.c1 = 0, !.c2 = n2, !.run = 0]
                  ELSE [Adv(3) EXCEPT !.c0 = 0, !.c1 = 0, !.c2 = n2]
             ELSE [Adv(2) EXCEPT !.c0 = 0, !.c1 = n1]
        ELSE [Adv(1) EXCEPT !.c0 = n0]

\* Dma::Channel::Tick
TickOp(ch, ah, vals) ==
    LET a0   == ah[ch.ach]
        reqs == ReadReqs(ch, ah)
        \* ---- source side: value (32-bit <<hi,lo>>; a 16-bit element is <<0,w>>), AHBM channel after it
        src  == IF ch.sp = 0 THEN
                    IF ch.dw # 0
                    THEN [v |-> <<DspRdVal(OrOne(ch.cs), vals[2]), DspRdVal(Align2(ch.cs), vals[1])>>,
                          c |-> a0, ev |-> ReqEvents(reqs, vals)]
                    ELSE [v |-> W16(DspRdVal(ch.cs, vals[1])), c |-> a0, ev |-> ReqEvents(reqs, vals)]
                ELSE IF ch.sp = 7 THEN
                    IF ch.dw # 0 THEN Read32Op(a0, ch.cs, vals)
                    ELSE LET r == Read16Op(a0, ch.cs, vals) IN [v |-> W16(r.v), c |-> r.c, ev |-> r.ev]
                ELSE [v |-> WZero, c |-> a0, ev |-> <<>>]
        \* ---- destination side
        dst  == IF ch.dp = 0 THEN
                    IF ch.dw # 0
                    THEN [c |-> src.c, ev |-> <<DspWrEv(Align2(ch.cd), src.v[2]), DspWrEv(OrOne(ch.cd), src.v[1])>>]
                    ELSE [c |-> src.c, ev |-> <<DspWrEv(ch.cd, src.v[2])>>]
                ELSE IF ch.dp = 7 THEN
                    IF ch.dw # 0 THEN Write32Op(src.c, ch.cd, src.v)
                    ELSE Write16Op(src.c, ch.cd, src.v[2])
                ELSE [c |-> src.c, ev |-> <<>>]
    IN  [ch |-> Step(ch), ah |-> [ah EXCEPT ![ch.ach] = dst.c], ev |-> src.ev \o dst.ev]

-----------------------------------------------------------------------------
(* State machine: Dma::DoDma = Start; Tick while running; interrupt_handler() *)
(* over an explicit (scaled) DSP data memory and external memory.             *)
CONSTANTS SizeSet,      \* values of size0/1/2
          StepPairs,    \* set of << <<src step0..2>>, <<dst step0..2>> >>
          ModeSet,      \* set of <<src_space, dst_space, dword_mode>>
          BaseSet,      \* set of <<addr_src, addr_dst>> (wide values)
          AhbmSet       \* set of <<unit, burst>> of AHBM channel 0 (DMA channel 0 routed to it)

VARIABLES ch, ah, dmem, xmem, log, irq, ticks, phase
vars == <<ch, ah, dmem, xmem, log, irq, ticks, phase>>

\* every cell starts with its own tag, so a moved value identifies where it came from
\* (model checking only: B*B fits an integer, memories are indexed by WToInt(address))
Cells == 0..(B * B - 1)
InitD == [n \in Cells |-> (37 * n + 11) % WB]
InitX == [n \in Cells |-> (7 * n + 3) % BB]

NewChan(sz, st, md, bs) ==
    [sa |-> bs[1], da |-> bs[2], z0 |-> sz[1], z1 |-> sz[2], z2 |-> sz[3], ss |-> st[1], ds |-> st[2],
     sp |-> md[1], dp |-> md[2], dw |-> md[3],
     cs |-> WZero, cd |-> WZero, c0 |-> 0, c1 |-> 0, c2 |-> 0, run |-> 0, ach |-> 0]

Init == /\ \E sz \in SizeSet \X SizeSet \X SizeSet, st \in StepPairs, md \in ModeSet, bs \in BaseSet :
               ch = NewChan(sz, st, md, bs)
        /\ \E ac \in AhbmSet :
               ah = [AhbmReset EXCEPT ![0] = [@ EXCEPT !.u = ac[1], !.bu = ac[2], !.dm = 1,
                                                       !.dir = IF ch.dp = 7 THEN 1 ELSE 0]]
        /\ (ch.sp # 7 /\ ch.dp # 7) => (ah[0].u = 0 /\ ah[0].bu = 0)      \* AHBM settings are irrelevant then
        /\ dmem = InitD /\ xmem = InitX /\ log = <<>> /\ irq = 0 /\ ticks = 0 /\ phase = "idle"

XAt(m, a, k) == m[WToInt(AddK(a, k))]
ReadVal(req) ==
    LET k == req[1]  a == req[2] IN
    IF k = KDspR THEN W16(dmem[WToInt(a)])
    ELSE IF k = KR8  THEN W16(XAt(xmem, a, 0))
    ELSE IF k = KR16 THEN W16(XAt(xmem, a, 0) + BB * XAt(xmem, a, 1))
    ELSE IF k = KR32 THEN <<XAt(xmem, a, 2) + BB * XAt(xmem, a, 3), XAt(xmem, a, 0) + BB * XAt(xmem, a, 1)>>
    ELSE WZero

ApplyD(m, e) == IF e[1] = KDspW THEN [m EXCEPT ![WToInt(e[2])] = e[3][2]] ELSE m
ApplyX(m, e) ==
    LET a == e[2]  v == e[3]  I(k) == WToInt(AddK(a, k)) IN
    IF e[1] = KW8 THEN [m EXCEPT ![I(0)] = v[2]]
    ELSE IF e[1] = KW16 THEN [m EXCEPT ![I(0)] = Byte0(v), ![I(1)] = Byte1(v)]
    ELSE IF e[1] = KW32 THEN [m EXCEPT ![I(0)] = Byte0(v), ![I(1)] = Byte1(v),
                                       ![I(2)] = Byte2(v), ![I(3)] = Byte3(v)]
    ELSE m
RECURSIVE ApplyAllD(_, _, _)
ApplyAllD(m, ev, i) == IF i > Len(ev) THEN m ELSE ApplyAllD(ApplyD(m, ev[i]), ev, i + 1)
RECURSIVE ApplyAllX(_, _, _)
ApplyAllX(m, ev, i) == IF i > Len(ev) THEN m ELSE ApplyAllX(ApplyX(m, ev[i]), ev, i + 1)

Start == /\ phase = "idle"
         /\ ch' = StartOp(ch, ChannelForDma(ah, 0))
         /\ phase' = "run"
         /\ UNCHANGED <<ah, dmem, xmem, log, irq, ticks>>

\* (TLC re-evaluates a LET that sits directly in an action at every use; operator arguments are
\* evaluated once -- hence TickApply(TickOp(..)) rather than LET r == TickOp(..) IN ..)
MemVals(reqs) == [i \in 1..Len(reqs) |-> ReadVal(reqs[i])]
TickApply(r) == /\ ch' = r.ch /\ ah' = r.ah
                /\ log' = log \o r.ev
                /\ dmem' = ApplyAllD(dmem, r.ev, 1)
                /\ xmem' = ApplyAllX(xmem, r.ev, 1)
Tick == /\ phase = "run" /\ ch.run # 0
        /\ TickApply(TickOp(ch, ah, MemVals(ReadReqs(ch, ah))))
        /\ ticks' = ticks + 1
        /\ UNCHANGED <<irq, phase>>
TickWord  == ch.dw = 0 /\ Tick
TickDword == ch.dw # 0 /\ Tick

Finish == /\ phase = "run" /\ ch.run = 0
          /\ irq' = irq + 1
          /\ phase' = "done"
          /\ UNCHANGED <<ch, ah, dmem, xmem, log, ticks>>

Next == Start \/ TickWord \/ TickDword \/ Finish
Spec == Init /\ [][Next]_vars

-----------------------------------------------------------------------------
(* Property layer (C13)                                                       *)

Mx(a, b) == IF a > b THEN a ELSE b
\* elements per dimension: "SIZEx can be 0, same effect as 1"; in double-word mode one element
\* counts 2 on the dimension-0 counter, so size0 words are covered by ceil(size0/2) double words
N0(c) == IF c.dw # 0 THEN (Mx(c.z0, 1) + 1) \div 2 ELSE Mx(c.z0, 1)
N1(c) == Mx(c.z1, 1)
N2(c) == Mx(c.z2, 1)
Count(c) == N0(c) * N1(c) * N2(c)

\* (m * s) mod B^2 as a wide value, without forming a product above 2^31 when m, s < 2^16
WMul(m, s) == LET sl == s % HB   sh == s \div HB   x == m * sh   q == B \div HB
              IN  WAdd(WFromInt(m * sl), << (x \div q) % B, (x % q) * HB >>)

(* dma.md: element k = i0 + N0*(i1 + N1*i2) (0-based, dimension 0 fastest).  Between two            *)
(* consecutive elements exactly one step is added: step1 when a dimension-0 row ends, step2 when    *)
(* a dimension-1 plane ends, step0 otherwise (the example of dma.md: 0,2,4/5,7,9/...||31,...).       *)
(* Hence before element k: (k div N0N1) step2's, (k div N0) - (k div N0N1) step1's, the rest step0. *)
Planes(c, k) == k \div (N0(c) * N1(c))
Rows(c, k)   == k \div N0(c)
ElemAddr(base, st, c, k) ==
    WAdd(WAdd(WAdd(base, WMul(k - Rows(c, k), st[1])),
              WMul(Rows(c, k) - Planes(c, k), st[2])),
         WMul(Planes(c, k), st[3]))
SrcAt(c, k) == ElemAddr(c.sa, c.ss, c, k)
DstAt(c, k) == ElemAddr(c.da, c.ds, c, k)

\* the same thing written as the 3-D formula of the property statement, used to cross-check ElemAddr
ElemAddr3(base, st, c, i2, i1, i0) ==
    LET k == i0 + N0(c) * (i1 + N1(c) * i2) IN ElemAddr(base, st, c, k)
ClosedFormIsDocExample ==     \* the worked example of dma.md (addresses wrap at B^2 in scaled models)
    LET c == [dw |-> 0, z0 |-> 3, z1 |-> 5, z2 |-> 2] IN
    [k \in 0..29 |-> WToInt(ElemAddr(WZero, <<2, 1, 7>>, c, k))] =
    [k \in 0..29 |-> <<0, 2, 4, 5, 7, 9, 10, 12, 14, 15, 17, 19, 20, 22, 24,
                       31, 33, 35, 36, 38, 40, 41, 43, 45, 46, 48, 50, 51, 53, 55>>[k + 1] % (B * B)]
WMulIsProduct == \A m \in 0..40, s \in 0..B-1 : WToInt(WMul(m, s)) = (m * s) % (B * B)

TypeOK == /\ ch.cs \in WideSet /\ ch.cd \in WideSet
          /\ ch.c0 \in 0..B-1 /\ ch.c1 \in 0..B-1 /\ ch.c2 \in 0..B-1
          /\ ch.run \in 0..1 /\ irq \in 0..1 /\ phase \in {"idle", "run", "done", "cut"}

\* "copies, in order, the elements addressed by its three-level size/step configuration": while the
\* transfer runs, the cursors are the closed-form addresses of element number `ticks`, and there is
\* such an element (the loop never runs past the last one)
CursorsClosedForm ==
    (phase = "run" /\ ch.run # 0) =>
        /\ ticks < Count(ch)
        /\ ch.cs = SrcAt(ch, ticks)
        /\ ch.cd = DstAt(ch, ticks)

\* the transfer stops, and stops after exactly Count elements
Terminates == ticks <= Count(ch) /\ ((phase = "run" /\ ch.run = 0) => ticks = Count(ch))

\* the trigger of defect D8 (see FixedD8): double-word mode with size0 = B-1 (0xFFFF at full width)
D8Trigger(c) == c.dw # 0 /\ c.z0 = B - 1
NotD8 == ~ D8Trigger(ch)

\* "raises the DMA interrupt exactly once on completion"
OneIrq == /\ irq = (IF phase = "done" THEN 1 ELSE 0)
          /\ phase = "done" => (ticks = Count(ch) /\ ch.run = 0)

\* C13 restricts DSP-side cursors to the data memory (anything else is C18 / defect D9)
NoOob == \A i \in 1..Len(log) : log[i][1] \notin {KOobR, KOobW}

(* The configurations for which C13 states what the bytes do ("natural"): spaces DSP / external;   *)
(* an external side moves 16-bit units in word mode and 32-bit units in double-word mode at        *)
(* naturally aligned addresses; bursts only with consecutive elements one unit apart, a whole      *)
(* number of bursts, an empty queue at the start and not on both sides at once (one AHBM channel   *)
(* = one queue serves the DMA channel).  Everything else is transcribed as-is and bound by traces. *)
UnitB(c) == IF c.dw # 0 THEN 4 ELSE 2
ExtNatural(c, a, base, st) ==
    /\ (c.dw # 0 /\ a.u = 2) \/ (c.dw = 0 /\ a.u = 1)
    /\ base[2] % UnitB(c) = 0 /\ \A i \in 1..3 : st[i] % UnitB(c) = 0
    /\ \/ Burst(a) = 1
       \/ /\ a.bu \in {1, 2}
          /\ N0(c) = 1 \/ st[1] = UnitB(c)
          /\ N1(c) = 1 \/ st[2] = UnitB(c)
          /\ N2(c) = 1 \/ st[3] = UnitB(c)
          /\ Count(c) % Burst(a) = 0
          /\ ~ (c.sp = 7 /\ c.dp = 7)
Natural(c, a) == /\ c.sp \in {0, 7} /\ c.dp \in {0, 7}
                 /\ c.sp = 7 => ExtNatural(c, a, c.sa, c.ss)
                 /\ c.dp = 7 => ExtNatural(c, a, c.da, c.ds)

\* ---- what the memories must hold: elements copied one after the other in element order
ElemVal(m, c, k) ==
    LET s == SrcAt(c, k) IN
    IF c.sp = 0 THEN (IF c.dw # 0 THEN <<m.d[WToInt(OrOne(s))], m.d[WToInt(Align2(s))]>> ELSE W16(m.d[WToInt(s)]))
    ELSE IF c.dw # 0 THEN <<XAt(m.x, s, 2) + BB * XAt(m.x, s, 3), XAt(m.x, s, 0) + BB * XAt(m.x, s, 1)>>
    ELSE W16(XAt(m.x, s, 0) + BB * XAt(m.x, s, 1))
StoreElem(m, c, k, v) ==
    LET t == DstAt(c, k) IN
    IF c.dp = 0 THEN
        (IF c.dw # 0 THEN [m EXCEPT !.d = [[@ EXCEPT ![WToInt(Align2(t))] = v[2]] EXCEPT ![WToInt(OrOne(t))] = v[1]]]
         ELSE [m EXCEPT !.d[WToInt(t)] = v[2]])
    ELSE IF c.dw # 0 THEN [m EXCEPT !.x = ApplyX(@, <<KW32, t, v>>)]
    ELSE [m EXCEPT !.x = ApplyX(@, <<KW16, t, v>>)]
RECURSIVE CopyFirst(_, _)       \* memories after the first k elements
CopyFirst(c, k) == IF k = 0 THEN [d |-> InitD, x |-> InitX]
                   ELSE LET m == CopyFirst(c, k - 1) IN StoreElem(m, c, k - 1, ElemVal(m, c, k - 1))

\* "copies ... from source to destination ..., changes no other memory; overlapping source and
\* destination ranges": after the transfer both memories are exactly the result of copying the
\* closed-form elements one by one in element order (ElementOrder/AccessesClosedForm below say the
\* same about the individual accesses while the transfer runs)
DataCopied ==
    (phase = "done" /\ Natural(ch, ah[ch.ach])) => [d |-> dmem, x |-> xmem] = CopyFirst(ch, Count(ch))

\* the cells a transfer may change at all: the destination elements
DstCells(c) ==
    UNION { IF c.dw # 0 THEN {Align2(DstAt(c, k)), OrOne(DstAt(c, k))} ELSE {DstAt(c, k)} : k \in 0..Count(c)-1 }
DstBytes(c) == UNION { {AddK(DstAt(c, k), j) : j \in 0..UnitB(c)-1} : k \in 0..Count(c)-1 }
FootprintOnlyDst ==
    (phase = "done" /\ Natural(ch, ah[ch.ach])) =>
        LET dc == IF ch.dp = 0 THEN DstCells(ch) ELSE {}
            db == IF ch.dp = 7 THEN DstBytes(ch) ELSE {}
        IN  /\ \A a \in WideSet : dmem[WToInt(a)] # InitD[WToInt(a)] => a \in dc
            /\ \A a \in WideSet : xmem[WToInt(a)] # InitX[WToInt(a)] => a \in db

\* ---- what the accesses must be: the ordered event log against the closed form
RdLog == SelectSeq(log, LAMBDA e : IsReadKind(e[1]))
WrLog == SelectSeq(log, LAMBDA e : IsWriteKind(e[1]))
ExpReads(c, k) ==      \* <<kind, address>> of the reads of element k
    LET s == SrcAt(c, k) IN
    IF c.sp = 0 THEN (IF c.dw # 0 THEN << <<KDspR, Align2(s)>>, <<KDspR, OrOne(s)>> >> ELSE << <<KDspR, s>> >>)
    ELSE << <<IF c.dw # 0 THEN KR32 ELSE KR16, s>> >>
ExpWrites(c, k, v) ==
    LET t == DstAt(c, k) IN
    IF c.dp = 0 THEN (IF c.dw # 0 THEN << <<KDspW, Align2(t), W16(v[2])>>, <<KDspW, OrOne(t), W16(v[1])>> >>
                      ELSE << <<KDspW, t, W16(v[2])>> >>)
    ELSE << <<IF c.dw # 0 THEN KW32 ELSE KW16, t, v>> >>
RPer(c) == IF c.sp = 0 /\ c.dw # 0 THEN 2 ELSE 1
WPer(c) == IF c.dp = 0 /\ c.dw # 0 THEN 2 ELSE 1
ValRead(c, rd, k) ==   \* the element value as assembled from the logged reads rd of element k
    IF RPer(c) = 2 THEN <<rd[2 * k + 2][3][2], rd[2 * k + 1][3][2]>> ELSE rd[k + 1][3]

\* at completion: the reads are exactly the source elements and the writes exactly the destination
\* elements, each once, in element order, every write carrying the value read for that element;
\* "each external access moves exactly those bytes at exactly that address"
AccessesClosedForm ==
    (phase = "done" /\ Natural(ch, ah[ch.ach])) =>
        LET rd == RdLog  wr == WrLog  rp == RPer(ch)  wp == WPer(ch)  n == Count(ch) IN
        /\ Len(rd) = rp * n /\ Len(wr) = wp * n
        /\ \A k \in 0..n-1 :
              LET er == ExpReads(ch, k)  ew == ExpWrites(ch, k, ValRead(ch, rd, k)) IN
              /\ \A j \in 1..rp : LET e == rd[rp * k + j] IN <<e[1], e[2]>> = er[j]
              /\ \A j \in 1..wp : wr[wp * k + j] = ew[j]

\* without bursts the accesses of element k all come before those of element k+1, reads first:
\* this is what "overlapping source and destination ranges" follow
ElementOrder ==
    (Natural(ch, ah[ch.ach]) /\ Burst(ah[ch.ach]) = 1) =>
        \A i \in 1..Len(log) : IsReadKind(log[i][1]) <=> ((i - 1) % (RPer(ch) + WPer(ch)) < RPer(ch))
=============================================================================
