CONSTANTS B = 65536
INIT Init
NEXT Next
INVARIANT Lemmas
