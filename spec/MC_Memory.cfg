\* C11, exhaustive on the scaled geometry: 8 program-only words + 2 banks x 8 data words (24 words =
\* 48 bytes, every one also a program word), MMIO window of 2 words (offset 0 plain storage, offset 1
\* the mmio_base register), bytes 0..1, word values written {1 = low byte set, 2 = high byte set}.
\* Every history of accessor calls that stays within Budget deviations from the fresh state.
CONSTANTS
  BYTE = 2
  DataOff = 8
  Bank = 8
  NBanks = 2
  MSize = 2
  XRes = 2
  DefBase = 4
  DefXSize = 2
  DefYSize = 1
  OffXPage = 100
  OffYPage = 101
  OffZPage = 102
  OffPage0 = 103
  OffMisc = 104
  OffBase = 1
  PlainLo = 0
  PlainHi = 0
  Vals = {1, 2}
  Budget = 2
SPECIFICATION Spec
VIEW StView
INVARIANTS TypeOK ProgramViewsAgree DataViewsAgree A32Alias MmioWindow WindowMoves PagedStaysInData
PROPERTIES ReadsArePure WindowNeverTouchesMemory MmioNeverTouchesMemory WritesHitOneCell ResetZeroesMemory AssertChangesNothing
CHECK_DEADLOCK FALSE
