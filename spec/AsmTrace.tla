------------------------------- MODULE AsmTrace -------------------------------
(* C05 conformance: assembly text <-> machine code (harness/drivers/asm_rec.cpp) against TeakDecode.       *)
(*  Asm   every first word: a renderable opcode assembles (Parser) to its canonical word Canon(w) with the   *)
(*        same need for a second word; that word disassembles identically for every second word tried;      *)
(*        the joined text is the token list joined by four spaces; the C binding returns that text and its   *)
(*        length.  (Two words with the same text therefore share Canon, i.e. differ in unused bits only; same *)
(*        decode row and operands give the same execution by C01/C02.)                                        *)
(*  CBuf  the C binding into a caller buffer of EVERY size 0..len+2: nothing outside [0, size) is touched,    *)
(*        the text is cut to size-1 characters and NUL-terminated right after them, the full length returned. *)
(*  Firm* the hwtest firmware sources line by line next to the shipped binaries: each instruction line        *)
(*        assembles to exactly the shipped word(s) and the shipped word disassembles to the line's tokens.     *)
EXTENDS TeakDecode, Integers, Json, IOUtils, TLC

Log == ndJsonDeserialize(IOEnv.TRACE)
VARIABLE vL
Rec == Log[vL]

RECURSIVE JoinFrom(_, _)
JoinFrom(t, i) == IF i > Len(t) THEN "" ELSE IF i = Len(t) THEN t[i] ELSE t[i] \o "    " \o JoinFrom(t, i + 1)
Join(t) == JoinFrom(t, 1)

AsmOk(r) ==
    LET w == r.w
        i == Decode(w)
        e == IF i # 0 /\ NeedExpRow[i] THEN 1 ELSE 0
        c == IF i = 0 THEN w ELSE w - (w & UnusedBits[i]) IN
    /\ r.dexp = e
    /\ i = 0 => r.err = 1
    /\ r.err = 0 => /\ r.pst = (IF e = 1 THEN 2 ELSE 1)
                    /\ r.pop = c
                    \* the assembled word prints exactly like the original, for every second word tried
                    /\ \A k \in 1 .. Len(r.ws) : r.ps[k] = r.ws[k].do
    /\ \A k \in 1 .. Len(r.ws) :
          /\ r.ws[k].do = Join(r.ws[k].tok)                         \* joined-text form = tokens joined by 4 spaces
          /\ r.cs[k].text = r.ws[k].do /\ r.cs[k].ret = Len(r.ws[k].do) /\ r.cs[k].need = e    \* C binding
          /\ e = 0 => r.ws[k].tok = r.tok                            \* without a second word the text does not depend on it
          /\ r.ws[k].x = 0 => r.ws[k].tok = r.tok                    \* the same question gets the same answer (annotated renderings are asked in between)

Min(a, b) == IF a <= b THEN a ELSE b
CBufOk(r) ==
    /\ r.ret = r.len /\ r.len = Len(r.text)
    /\ r.dstlen = 0 => r.touched = 0                                  \* a zero-size buffer is never written
    /\ r.touched = 1 => r.lo >= 0 /\ r.hi <= r.dstlen - 1             \* never outside the caller's buffer
    /\ r.dstlen > 0 => /\ r.nul = Min(r.len, r.dstlen - 1)            \* NUL right after the (possibly cut) text
                       /\ r.got = SubSeq(r.text, 1, Min(r.len, r.dstlen - 1))

FirmOk(r) ==
    CASE r.e = "FirmHead" -> r.nseg > 0
      [] r.e = "FirmSeg"  -> r.target = r.shiptarget /\ r.type = r.shiptype
      [] r.e = "FirmData" -> r.v = r.ship
      [] r.e = "FirmIns"  -> LET i == Decode(r.ship) IN
                             /\ r.pst \in {1, 2} /\ r.pop = r.ship                     \* the line assembles to the shipped word
                             /\ (r.pst = 2) <=> (r.x # -1)
                             /\ r.shipx = r.x                                          \* and the shipped second word
                             /\ i # 0 /\ (NeedExpRow[i] <=> r.x # -1)
                             /\ r.dis = r.src                                          \* the shipped word prints as the source line
      [] r.e = "FirmEnd"  -> r.left = 0

RecOk(r) == CASE r.e = "Asm" -> AsmOk(r) [] r.e = "CBuf" -> CBufOk(r) [] OTHER -> FirmOk(r)

TraceInit == vL = 1
TraceNext == vL <= Len(Log) /\ RecOk(Rec) /\ vL' = vL + 1
TraceSpec == TraceInit /\ [][TraceNext]_vL
TraceAccepted == /\ PrintT(<<"TRACE_MATCHED", TLCGet("stats").diameter - 1, Len(Log)>>)
                 /\ TLCGet("stats").diameter - 1 = Len(Log)
=============================================================================
