\* Btdmp::Skip as pinned, period changes unrestricted but never 0: TLC must find that Skip(k) is not
\* Tick^k once the period was lowered to or below the running phase (Skip restarts the phase, also
\* for k = 0; Tick transmits on the next tick).  Keeps the model honest about that defect.
CONSTANTS
  Cap = 4
  TW = 8
  ResetPeriod = 2
  FixedSkipOverrun = FALSE
  Vals = {0, 1}
  Periods = {1, 2, 3}
  Clocks = {0}
  K = 7
  G = 5
  PhaseKept = FALSE
SPECIFICATION Spec
CONSTRAINT HistoryBound
INVARIANTS TypeOK SkipIsTicks
CHECK_DEADLOCK FALSE
