\* as-is layer only (no property invariants): used for the D8 / D9 reproducer traces, where the
\* unchanged code is expected to leave C13's envelope and the question is whether the model explains it
CONSTANTS
  B = 65536
  BB = 256
  HB = 256
  FixedD8 = FALSE
  RealMap = TRUE
  DataHi = 2
  RangeLo = 4
  RangeHi = 8
  SizeSet = {}
  StepPairs = {}
  ModeSet = {}
  BaseSet = {}
  AhbmSet = {}
SPECIFICATION TraceSpec
POSTCONDITION TraceAccepted
CHECK_DEADLOCK FALSE
