CONSTANTS TB = 2  N = 6  FixPending = TRUE  FixSkipZero = TRUE  Family = "timers"  FixAudioSkip = TRUE  GuardSeesVectored = TRUE
INIT Init
NEXT Next
INVARIANT SlicingInvariant
CHECK_DEADLOCK FALSE
