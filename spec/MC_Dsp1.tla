------------------------------- MODULE MC_Dsp1 -------------------------------
(* All sources of up to MaxLen items over a small alphabet that exercises every branch of the assembler    *)
(* front end and of the reader: both segment kinds and an unknown kind, two targets (one above 16 bits),    *)
(* data words that are one-word / two-word / undefined opcodes, instruction lines of a one-word form, a     *)
(* two-word form, a form with unused bits set and an undefined word, each with and without a '$' value,     *)
(* unparsable lines and wrong parameter counts.  The physical line number of item i is 2 i (blank lines).   *)
EXTENDS Dsp1
CONSTANT MaxLen
W1  == 40000      \* exp [r0]            one word
W2  == 16768      \* br 0x.... always    two words
WU  == 3          \* unused bit set: canonical word 2
WX  == 14         \* undefined
Segs  == {[k |-> "seg", ty |-> t, target |-> a] : t \in {0, 2, 9}, a \in {0, 65536 + 4096}}
Datas == {[k |-> "data", v |-> v] : v \in {0, W2, WX}}
Inss  == {[k |-> "ins", w |-> w, x |-> x] : w \in {W1, W2, WU, WX}, x \in {-1, 4660}}
Other == {[k |-> "bad"], [k |-> "argc"]}
\* records of different shapes cannot share a TLC set: items are kept apart by kind and merged per position
Kinds == {"seg", "data", "ins", "other"}
VARIABLE vSrc
Pad(it, i) == [k |-> it.k, ln |-> 2 * i,
               ty |-> IF it.k = "seg" THEN it.ty ELSE 0, target |-> IF it.k = "seg" THEN it.target ELSE 0,
               v |-> IF it.k = "data" THEN it.v ELSE 0,
               w |-> IF it.k = "ins" THEN it.w ELSE 0, x |-> IF it.k = "ins" THEN it.x ELSE -1]
AllItems(i) == {Pad(it, i) : it \in Segs} \cup {Pad(it, i) : it \in Datas} \cup {Pad(it, i) : it \in Inss} \cup {Pad(it, i) : it \in Other}
Init == vSrc = <<>>
Next == /\ Len(vSrc) < MaxLen
        /\ \E it \in AllItems(Len(vSrc) + 1) : vSrc' = Append(vSrc, it)
Spec == Init /\ [][Next]_vSrc
Inv == WellFormed(vSrc) =>
          /\ RoundTrip(vSrc) /\ NoOverlap(vSrc) /\ StreamBack(vSrc)
          \* an error is reported for the first offending line and nothing after it is looked at
          /\ LET r == Assemble(vSrc) IN
               r.rc # 0 => /\ \E i \in 1..Len(vSrc) : /\ vSrc[i].ln = r.ln /\ ItemError(vSrc[i]) = r.err
                                                      /\ \A j \in 1..(i - 1) : ItemError(vSrc[j]) = ""
\* negative control: with a two-word data word in a program segment the stream clause must fail
InvNoPlain == WellFormed(vSrc) => LET r == Assemble(vSrc) IN
    r.rc = 0 => \A s \in 1..Len(r.segs) : r.segs[s].ty = 0 => Listing(r.segs[s]) = StreamOf(SegItems(vSrc, 1, s, 0), r.segs[s].target, 1)
=============================================================================
