\* the proposed repair of defect D8 (counter0 no longer wraps): the D8 trigger configurations satisfy all of C13
CONSTANTS
  B = 4
  BB = 16
  HB = 2
  FixedD8 = TRUE
  RealMap = FALSE
  DataHi = 0
  RangeLo = 0
  RangeHi = 0
  SizeSet <- D8Sizes
  StepPairs <- D8Pairs
  ModeSet <- DspModes
  BaseSet <- D8Bases
  AhbmSet <- NoAhbm
SPECIFICATION Spec
INVARIANTS TypeOK CursorsClosedForm Terminates OneIrq NoOob DataCopied FootprintOnlyDst AccessesClosedForm ElementOrder
CHECK_DEADLOCK FALSE
