CONSTANT W = 16
INIT Init
NEXT Next
INVARIANT Inv
