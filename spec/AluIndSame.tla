----------------------------- MODULE AluIndSame -----------------------------
(* The annotated operators that Apalache proves exact at full width (AluInd.tla) ARE the operators of        *)
(* TeakAlu.tla that the trace specifications bind to the code: compared by TLC for ALL values at W = 4.        *)
EXTENDS TeakAlu, TLC
I == INSTANCE AluInd WITH W <- W, va <- <<0, 0, 0>>, vb <- <<0, 0, 0>>, vsub <- FALSE
VARIABLE vA
Init == vA = AZero
Next == vA' \in AccSet
Same ==
    /\ I!AccFlags(vA) = AccFlags(vA) /\ I!Saturate(vA) = Saturate(vA) /\ I!AToInt(vA) = AToInt(vA) /\ I!AToNat(vA) = AToNat(vA)
    /\ \A b \in AccSet : \A sub \in BOOLEAN : I!AddSub(vA, b, sub) = AddSub(vA, b, sub)
=============================================================================
