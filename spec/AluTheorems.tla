----------------------------- MODULE AluTheorems -----------------------------
(* Property layer for C03/C04: the limb operators of TeakAlu are EXACT integer arithmetic.  With vA   *)
(* scaled limb width (W = 4: 10-bit accumulator, 8-bit "32-bit" range, 4-bit factors) TLC compares    *)
(* every operator with plain integer arithmetic for ALL operand values (vA is enumerated as the set of *)
(* initial states, b / modes are quantified inside the invariants).                                    *)
EXTENDS TeakAlu, TLC

CONSTANT Dev_ShiftBy40    \* TRUE: accept the as-coded carry for vA shift by exactly ABITS (named deviation)
VARIABLE vA
Init == vA = AZero
Next == vA' \in AccSet          \* successors are checked by all workers in parallel

M    == 2 ^ ABITS
Half == M \div 2
Wrap(n) == LET m == n % M IN IF m >= Half THEN m - M ELSE m     \* two's complement reading of n mod 2^40
Fits(n, bits) == n >= -(2 ^ (bits - 1)) /\ n <= 2 ^ (bits - 1) - 1
S32 == 2 * W                                                     \* the "32-bit" width

AddSubExact ==
    \A b \in AccSet : \A sub \in BOOLEAN :
        LET r  == AddSub(vA, b, sub)
            ia == AToInt(vA)  ib == AToInt(b)
            t  == IF sub THEN ia - ib ELSE ia + ib
            u  == IF sub THEN AToNat(vA) - AToNat(b) ELSE AToNat(vA) + AToNat(b)
        IN  /\ AToInt(r.v) = Wrap(t)
            /\ r.c = (IF sub THEN B2I(u < 0) ELSE B2I(u >= M))       \* carry = bit 40 of the unsigned result
            /\ r.ov = B2I(~ Fits(t, ABITS))                           \* overflow = signed result not representable

FlagsExact ==
    LET x == AToInt(vA)  fl == AccFlags(vA) IN
    /\ fl.fz = B2I(x = 0)
    /\ fl.fm = B2I(x < 0)
    /\ fl.fe = B2I(~ Fits(x, S32))
    \* normalised: zero, or vA 32-bit value whose magnitude needs all 32 bits
    /\ fl.fn = B2I(x = 0 \/ (Fits(x, S32) /\ ~ Fits(x, S32 - 1)))

SaturateExact ==
    LET x == AToInt(vA)  r == Saturate(vA)
        lo == -(2 ^ (S32 - 1))  hi == 2 ^ (S32 - 1) - 1 IN
    /\ AToInt(r.v) = (IF x < lo THEN lo ELSE IF x > hi THEN hi ELSE x)
    /\ r.lim = B2I(x < lo \/ x > hi)

\* floor division by 2^n for possibly negative x
FloorShr(x, n) == IF x >= 0 THEN x \div (2 ^ n) ELSE -((-x + 2 ^ n - 1) \div (2 ^ n))

ShiftExact ==
    \A n \in 0 .. ABITS + 2 : \A smode \in 0 .. 1 : \A sata \in 0 .. 1 : \A fv0 \in 0 .. 1 :
        LET x  == AToInt(vA)
            ux == AToNat(vA)
            lo == -(2 ^ (S32 - 1))  hi == 2 ^ (S32 - 1) - 1
            L  == ShiftN(vA, TRUE, n, smode, sata, fv0)
            R  == ShiftN(vA, FALSE, n, smode, sata, fv0)
            lx == x * (2 ^ n)                           \* exact (unbounded) left shift; n <= 12, |x| < 2^10
            lov == ~ Fits(lx, ABITS)
            lraw == Wrap(lx)
            lclamp == smode = 0 /\ sata = 0 /\ (lov \/ ~ Fits(lraw, S32))
            rraw == IF smode = 0 THEN FloorShr(x, n) ELSE ux \div (2 ^ n)
            rclamp == smode = 0 /\ sata = 0 /\ ~ Fits(rraw, S32)
        IN  /\ AToInt(L.v) = (IF lclamp THEN (IF x < 0 THEN lo ELSE hi) ELSE lraw)
            \* carry = last bit shifted out.  Dev_ShiftBy40: at n = 40 exactly the code reports 0 where the last
            \* bit out is bit 0 (left) / bit 39 (logical right) -- known finding C04, see known_findings.json
            /\ (n # ABITS \/ ~ Dev_ShiftBy40) => L.c = (IF n = 0 THEN 0 ELSE ((ux * (2 ^ n)) \div M) % 2)
            /\ (n = ABITS /\ Dev_ShiftBy40) => L.c = 0
            /\ smode = 0 => L.fv = B2I(lov)                                     \* significant bits lost
            /\ smode = 1 => L.fv = fv0 /\ L.fvl = 0
            /\ L.fvl = B2I(smode = 0 /\ lov)
            /\ L.flm = B2I(lclamp)
            /\ n >= 1 => /\ AToInt(R.v) = (IF rclamp THEN (IF x < 0 THEN lo ELSE hi) ELSE Wrap(rraw))
                         /\ (n # ABITS \/ smode = 0 \/ ~ Dev_ShiftBy40) =>
                                R.c = (IF n > ABITS THEN (IF smode = 0 THEN B2I(x < 0) ELSE 0)
                                       ELSE (ux \div (2 ^ (n - 1))) % 2)
                         /\ (n = ABITS /\ smode = 1 /\ Dev_ShiftBy40) => R.c = 0
                         /\ R.fv = (IF smode = 0 THEN 0 ELSE fv0)
                         /\ R.flm = B2I(rclamp)

ExpExact ==
    LET x == AToInt(vA)
        \* number of redundant sign bits: the largest k with x representable in ABITS - k bits
        k == CHOOSE k \in 0 .. ABITS - 1 : Fits(x, ABITS - k) /\ (k = ABITS - 1 \/ ~ Fits(x, ABITS - k - 1))
    IN  Exp(vA) = (k + B - E) % B

Inv == AddSubExact /\ FlagsExact /\ SaturateExact /\ ShiftExact /\ ExpExact
=============================================================================
