CONSTANT MaxLen = 4
SPECIFICATION Spec
INVARIANT Inv
CHECK_DEADLOCK FALSE
