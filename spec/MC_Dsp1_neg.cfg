CONSTANT MaxLen = 4
SPECIFICATION Spec
INVARIANT InvNoPlain
CHECK_DEADLOCK FALSE
