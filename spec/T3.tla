------------------------------ MODULE T3 ------------------------------
(* Model checking of the C12 property layer of Mmio.tla.                      *)
(* A state is (b, A, v): base state number, written offset, written value.    *)
(* Init enumerates b x A (v = NoVal: the read-only checks run here), one Next  *)
(* step picks v; every invariant is a statement about Write(BaseOf(b), A, v)   *)
(* quantified over all other offsets B (and, for the DMA window, over all      *)
(* ordered channel pairs).  So TLC's workers share the A x v x base product    *)
(* and the per-state work is the "for all B" part.                             *)
(*   A in DocOffs (177 documented offsets) + SampleOffs (9 undocumented/odd)   *)
(*   v in {0, FFFF, 5555, AAAA, 00FF, FF00, walking 1, walking 0} + values     *)
(*        with meaning (DMA start 40C0, channel numbers, timer restart words); *)
(*        ValMode 2 adds every two-hot word and nibble patterns                *)
(*   b    1 fresh; 2, 3 two fully programmed register files (every documented   *)
(*        register written, eight distinct DMA channels, timers armed in event  *)
(*        mode with the mirror on, mailbox words pending, FIFO part-full/full,  *)
(*        window relocated, ZPAGE set); 4, 5 = Teakra::Reset applied to 2, 3    *)
(*        (raw BitFieldCell words survive next to reset fields)                 *)
EXTENDS Mmio

CONSTANTS ValMode, NBases
VARIABLES b, A, v
vars == <<b, A, v>>

NoVal == 99999
Walk1 == { 2^k : k \in 0..15 }
Walk0 == { \hFFFF - 2^k : k \in 0..15 }
Special == { \h40C0, 3, 5, 7, 8, \h060C, \h0410, \h0404, \h0608, \h00FF, \hFF00 }
TwoHot == { 2^i + 2^j : i \in 0..15, j \in 0..15 } \ Walk1
Values == { 0, \hFFFF, \h5555, \hAAAA } \cup Walk1 \cup Walk0 \cup Special
          \cup (IF ValMode >= 2 THEN TwoHot \cup { \h0F0F, \hF0F0, \h3333, \hCCCC, \h7FFF, \h8001, 1234, 40000 }
                ELSE {})
WriteSet == DocOffs \cup SampleOffs

-----------------------------------------------------------------------------
(* base states: programs of writes and host mailbox calls run on Fresh        *)
Step(s, op) == CASE op[1] = "W"    -> Write(s, op[2], op[3]).s
                 [] op[1] = "HS"   -> HostSend(s, op[2], op[3])
                 [] op[1] = "HSem" -> HostSetSem(s, op[3])
\* fold by halves: recursion depth log2(Len(ops)) (TLC evaluates recursion on the Java stack)
RECURSIVE RunRange(_, _, _, _)
RunRange(s, ops, lo, hi) ==
    IF lo > hi THEN s
    ELSE IF lo = hi THEN Step(s, ops[lo])
    ELSE LET mid == (lo + hi) \div 2 IN RunRange(RunRange(s, ops, lo, mid), ops, mid + 1, hi)
RunOps(s, ops, i) == RunRange(s, ops, i, Len(ops))
SortedSeq(S) == [i \in 1..Cardinality(S) |-> CHOOSE x \in S : Cardinality({ y \in S : y < x }) = i - 1]
Pat(o, salt) == (o * 40503 + salt * 12345 + \h1357) % 65536
W(o, x) == <<"W", o, x>>
Rep(op, n) == [i \in 1..n |-> op]

BulkOffs == SortedSeq((DocOffs \cup SampleOffs) \ { \h1BE, \h20, \h22, \h30, \h32, \h112, \h11E })
WinSeq   == SortedSeq(WindowOffs)
Bulk(salt)    == [i \in 1..Len(BulkOffs) |-> W(BulkOffs[i], Pat(BulkOffs[i], salt))]
Chan(c, salt) == <<W(\h1BE, c)>> \o [i \in 1..Len(WinSeq) |-> W(WinSeq[i], Pat(WinSeq[i], salt + c))]
RECURSIVE Chans(_, _)
Chans(c, salt) == IF c > 7 THEN <<>> ELSE Chan(c, salt) \o Chans(c + 1, salt)

Ops2 == Bulk(1) \o Chans(0, 10) \o
        << W(\h1BE, 3),
           W(\h24, 1), W(\h26, 0), W(\h20, \h060C),        \* timer 0: event count, mirror on, restart: counter 1
           W(\h34, 2), W(\h36, 0), W(\h30, \h0404),        \* timer 1: auto restart, mirror off, counter 2
           <<"HS", 0, \h1111>>, <<"HS", 2, \h3333>>, <<"HSem", 0, \h00F0>> >>
        \o Rep(W(\h2C6, \h7777), 3) \o << W(\h11E, \h0800) >>
Ops3 == Bulk(2) \o Chans(0, 20) \o
        << W(\h1BE, 7),
           W(\h34, 0), W(\h36, 1), W(\h30, \h060C),        \* timer 1: event count, counter 0x10000 (limb borrow)
           W(\h24, 9), W(\h26, 9), W(\h20, \h0608),        \* timer 0: free running: RES does not reload
           W(\hCE, \h00FF), W(\hD4, \h1000),
           <<"HSem", 0, \h0F0F>>, <<"HS", 1, \h2222>>, <<"HS", 0, \h4444>> >>
        \o Rep(W(\h2C6, 1), 16) \o Rep(W(\h346, 2), 2)
        \o << W(\h112, 1), W(\h11E, \hFC00) >>


TInit == b = 1 /\ A = 0 /\ v = 0
TNext == UNCHANGED vars
S100 == RunRange(Fresh, Ops2, 1, 100)
ASSUME PrintT(<<"a", S100[ActiveK]>>)
ASSUME \A i \in 101..179 : PrintT(<<i, Ops2[i], Step(S100, Ops2[i])[ActiveK]>>)
S140 == RunRange(S100, Ops2, 101, 140)
ASSUME PrintT(<<"b", S140[ActiveK]>>)
S179 == RunRange(S140, Ops2, 141, 179)
ASSUME PrintT(<<"c", S179[ActiveK]>>)
====
