\* C14 trace validation against the REPAIRED Apbp::MaskSemaphore (flag recomputed, interrupt on a rise)
CONSTANTS
  NCh = 3
  Data <- DataFull
  SemW = 16
  FixedMask = TRUE
    FixedReentry = TRUE
  Junk = {0}
  Sides = {"fc", "fd"}
SPECIFICATION TraceSpec
INVARIANT Observed
PROPERTIES DataInterrupts RecvReturnsLast SemaphoreInterrupts IcuLatch
POSTCONDITION TraceAccepted
CHECK_DEADLOCK FALSE
