----------------------------- MODULE RegsTheorems -----------------------------
(* Property layer for C20 on TeakRegs: each of the 19 architectural status/configuration words is a     *)
(* faithful bit-field view of the one register state.  For every written value vV (all 65536 in the       *)
(* thorough configuration) x every word x three base states (all fields zero, all fields at their        *)
(* maximum, alternating):                                                                                *)
(*   ReadBack       writing a word and reading it back returns vV on all writable bits;                   *)
(*   ReadOnlyKept   read-only bits keep their value (the loop flag is write-one-to-clear, also bcn);     *)
(*   FrameKept      every register field outside the word is unchanged;                                  *)
(*   CrossView      a field visible in two words reads the same in both after a write through either     *)
(*                  (TeakLite limit bit = OR of the two Teak limit flags; writing it sets both).         *)
EXTENDS TeakRegs, TLC

CONSTANT Vals
VARIABLE vV
Init == vV = 0
Next == vV' \in Vals

MaxOf(i) == 2 ^ Widths[i] - 1
BaseZero == Unpack([i \in 1 .. NREG |-> 0])
BaseOnes == Unpack([i \in 1 .. NREG |-> MaxOf(i)])
BaseAlt  == Unpack([i \in 1 .. NREG |-> IF i % 2 = 0 THEN MaxOf(i) ELSE MaxOf(i) \div 3])
Bases == {BaseZero, BaseOnes, BaseAlt}

Slots(w) == Words[w]
\* <<field, element index>> pairs a write to word w may change
MayChange(w) == UNION {
    LET s == Slots(w)[j] IN
    CASE s.k = "rw"   -> {<<s.f, s.i>>}
      [] s.k = "dbl"  -> {<<"flm", 0>>, <<"fvl", 0>>}
      [] s.k = "acce" -> {<<s.f, 3>>}
      [] s.k = "lp"   -> {<<"lp", 0>>, <<"bcn", 0>>}
      [] OTHER -> {} : j \in 1 .. Len(Slots(w))}

ReadBack(r, w) == LET m == WritableMask(w) IN (PGet(PSet(r, w, vV), w) & m) = (vV & m)

ReadOnlyKept(r, w) ==
    \A j \in 1 .. Len(Slots(w)) :
        LET s == Slots(w)[j]  r2 == PSet(r, w, vV) IN
        /\ s.k = "ro" /\ <<s.f, s.i>> \notin MayChange(w) => SlotGet(r2, s) = SlotGet(r, s)
        /\ s.k = "lp" => SlotGet(r2, s) = (IF Bit(vV, s.pos) = 1 THEN 0 ELSE r.lp)
        /\ (s.k = "lp" /\ Bit(vV, s.pos) = 1) => r2.bcn = 0

FrameKept(r, w) ==
    LET r2 == PSet(r, w, vV)  C == MayChange(w) IN
    \A f \in DOMAIN r :
        IF f \in {"sh", "ss"} THEN r2[f] = r[f]
        ELSE IF f \in SeqFields THEN \A i \in DOMAIN r[f] : <<f, i>> \notin C => r2[f][i] = r[f][i]
        ELSE <<f, 0>> \notin C => r2[f] = r[f]

\* two slots of two words that show the same underlying field
SameField(s1, s2) == s1.f = s2.f /\ s1.i = s2.i /\ s1.k \in {"rw", "acce"} /\ s2.k \in {"rw", "ro", "acce"} /\ s1.len = s2.len
CrossView(r, w1) ==
    \A w2 \in WordNames :
        LET r2 == PSet(r, w1, vV) IN
        \A j1 \in 1 .. Len(Slots(w1)) : \A j2 \in 1 .. Len(Slots(w2)) :
            LET s1 == Slots(w1)[j1]  s2 == Slots(w2)[j2] IN
            /\ SameField(s1, s2) =>
                 (PGet(r2, w2) \div (2 ^ s2.pos)) % (2 ^ s2.len) = (vV \div (2 ^ s1.pos)) % (2 ^ s1.len)
            \* the TeakLite limit bit is the OR of the two Teak limit flags, and writing it sets both
            /\ (s1.k = "dbl" /\ w2 = "stt0") =>
                 /\ Bit(PGet(r2, "stt0"), 0) = Bit(vV, s1.pos) /\ Bit(PGet(r2, "stt0"), 1) = Bit(vV, s1.pos)
            /\ (s2.k = "dbl" /\ w1 = "stt0") =>
                 Bit(PGet(r2, w2), s2.pos) = (IF Bit(vV, 0) = 1 \/ Bit(vV, 1) = 1 THEN 1 ELSE 0)

\* bits of a word that no slot defines read as zero
ReservedZero(r, w) == (PGet(r, w) & (65535 - DefinedMask(w))) = 0

Inv == \A w \in WordNames : \A r \in Bases :
          ReadBack(r, w) /\ ReadOnlyKept(r, w) /\ FrameKept(r, w) /\ CrossView(r, w) /\ ReservedZero(r, w)
=============================================================================
