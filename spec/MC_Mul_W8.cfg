CONSTANTS W = 8
INIT Init
NEXT Next
INVARIANT Inv
