\* C14 trace validation against the PINNED (unrepaired) Apbp::MaskSemaphore, defect D3: the mask is
\* stored and nothing else.  The flag invariant and the rise property cannot hold on such executions
\* and are left out here; everything else is checked as in Trace_Apbp.cfg.
CONSTANTS
  NCh = 3
  Data <- DataFull
  SemW = 16
  FixedMask = FALSE
    FixedReentry = TRUE
  Junk = {0}
  Sides = {"fc", "fd"}
SPECIFICATION TraceSpec
INVARIANT ObservedPinned
PROPERTIES DataInterrupts RecvReturnsLast IcuLatch
POSTCONDITION TraceAccepted
CHECK_DEADLOCK FALSE
