CONSTANTS W = 16  Counts = {0, 1, 2}  MaxDepth = 4  Fuel = 600
INIT Init
NEXT Next
INVARIANT LoopsExecuteCountPlusOne
CHECK_DEADLOCK FALSE
