----------------------------- MODULE MmioTrace -----------------------------
(* Trace validation for C12: an execution recorded from a real Teakra::Teakra *)
(* (harness/drivers/mmio_rec.cpp) must be a behaviour of Mmio.tla.            *)
(* Every line names the access (path, the address used, value written or      *)
(* returned, outcome) and carries the COMPLETE list of read-backs that the     *)
(* access changed among all 0x800 offsets ("ch") and of the changes in the     *)
(* state behind the registers, read directly from the objects ("hid": timer    *)
(* fields and counters, all eight DMA channels, MIU, AHBM, ICU, BTDMP fields). *)
(* The trace action applies the specification operator to the specification    *)
(* state and requires                                                          *)
(*   - the same offset decoded from the address, the same outcome, the same    *)
(*     returned value,                                                         *)
(*   - exactly the same set of changed read-backs with the same new values     *)
(*     (computed over every documented offset plus the offset accessed; a      *)
(*     logged change anywhere else has no counterpart and rejects the line),   *)
(*   - exactly the same set of hidden changes.                                 *)
(* Besides, the property layer is evaluated on what was OBSERVED (variable     *)
(* frame): the changed offsets of a write lie in {A} + Coupled[A], those of a  *)
(* read in ReadCoupled[A], and A reads back the written value on RWMask(A).    *)
(* (variable names regs/ln/frame: no operator of Mmio.tla has a parameter of   *)
(* that name -- TLC resolves a parameter that is named like a variable to the  *)
(* variable)                                                                   *)
EXTENDS Mmio, Json, IOUtils

Log == ndJsonDeserialize(IOEnv.TRACE)

VARIABLES regs, ln, frame, rdb
tvars == <<regs, ln, frame, rdb>>

Rec == Log[ln]
IsEvent(e) == ln <= Len(Log) /\ Rec.e = e
SeqSet(q)  == { q[i] : i \in 1..Len(q) }

\* ids of the hidden words in the log
HidFields == << "addr_src_low", "addr_src_high", "addr_dst_low", "addr_dst_high", "size0", "size1", "size2",
                "src_step0", "dst_step0", "src_step1", "dst_step1", "src_step2", "dst_step2",
                "src_space", "dst_space", "dword_mode", "y", "z" >>
TimerHid == << "scale", "mode", "pause", "mu", "start_low", "start_high", "ctr_low", "ctr_high" >>
MiuHid   == << K("miu", 0, "x_page"), K("miu", 0, "y_page"), K("miu", 0, "z_page"), K("miu", 0, "page_mode"),
               K("miu", 0, "mmio_base"), K("miu", 0, "x_size"), K("miu", 1, "x_size"), K("miu", 0, "y_size"),
               K("miu", 1, "y_size") >>
AhbmHid  == << "burst", "unit", "dir", "dmach" >>
BtHid    == << "clock", "enable", "empty", "full" >>
HidIds == (0..3) \cup { 16 + 32 * c + f : c \in 0..7, f \in 0..17 } \cup { 300, 301 } \cup (400..447)
          \cup { 500 + 10 * i + f : i \in 0..1, f \in 0..7 } \cup (520..528) \cup (530..542) \cup { 545, 546 }
          \cup (550..554) \cup { 560 + 5 * i + f : i \in 0..1, f \in 0..3 }
HidKey == TLCEval([id \in HidIds |->
             CASE id <= 3   -> TK(id \div 2, IF id % 2 = 0 THEN "cnt_hi" ELSE "cnt_lo")
               [] id <= 271 -> <<"dma", (id - 16) \div 32, HidFields[((id - 16) % 32) + 1]>>
               [] id <= 301 -> K("bt", id - 300, "qlen")
               [] id <= 415 -> K("icu", id - 400, "vlow")
               [] id <= 431 -> K("icu", id - 416, "vhigh")
               [] id <= 447 -> K("icu", id - 432, "vctx")
               [] id <= 517 -> TK((id - 500) \div 10, TimerHid[((id - 500) % 10) + 1])
               [] id <= 528 -> MiuHid[id - 519]
               [] id <= 541 -> K("ahbm", (id - 530) \div 4, AhbmHid[((id - 530) % 4) + 1])
               [] id = 542  -> K("ahbm", 0, "busy")
               [] id = 545  -> K("dmac", 0, "enable")
               [] id = 546  -> ActiveK
               [] id = 550  -> ReqK
               [] id <= 553 -> K("icu", id - 551, "enable")
               [] id = 554  -> K("icu", 0, "venable")
               [] OTHER     -> K("bt", (id - 560) \div 5, BtHid[((id - 560) % 5) + 1])])

Pure == AllOffs \ CmdOffs                       \* offsets the recorder reads back after every event
DocPure == DocOffs \ CmdOffs
\* rdb = the read-back of every documented (pure) offset in the current state regs, carried along so
\* that each line costs one Read per offset, not two; rdb' = ReadAll(regs') in every step
ReadAll(s1) == TLCEval([o \in DocPure |-> Read(s1, o)])
\* changed read-backs among the documented offsets and the accessed offset (when undocumented)
ChangedReads(s1, nrd, off) ==
         { <<o, nrd[o]>> : o \in { x \in DocPure : nrd[x] # rdb[x] } }
    \cup (IF off \in Pure \ DocPure /\ Read(s1, off) # Read(regs, off) THEN { <<off, Read(s1, off)>> } ELSE {})
ChangedHid(s0, s1) == { <<id, s1[HidKey[id]]>> : id \in { x \in HidIds : s0[HidKey[x]] # s1[HidKey[x]] } }

\* the step to specification state s1 after an access to offset off (0x800: none), with the verdict
\* ok of the property layer on the observation
Go(s1, off, ok) ==
    LET nrd == ReadAll(s1) IN
    /\ SeqSet(Rec.ch)  = ChangedReads(s1, nrd, off)
    /\ SeqSet(Rec.hid) = ChangedHid(regs, s1)
    /\ regs' = s1 /\ ln' = ln + 1 /\ frame' = ok /\ rdb' = nrd

\* property layer on the observation
ObsChanged == { e[1] : e \in SeqSet(Rec.ch) }
ObsReadBack(off) == LET hit == { e \in SeqSet(Rec.ch) : e[1] = off }
                    IN  IF hit = {} THEN Read(regs, off) ELSE (CHOOSE e \in hit : TRUE)[2]
WriteFrame(off, v, out) ==
    /\ \A o \in ObsChanged : o = off \/ <<off, o>> \in Coupled
    /\ (out = "ok" /\ off \in Pure /\ ObsReadBack(off) # OOB) =>
           (ObsReadBack(off) & RWMask(off)) = (v & RWMask(off))
ReadFrame(off) == \A o \in ObsChanged : <<off, o>> \in ReadCoupled

-----------------------------------------------------------------------------
\* (operators, not LETs inside the actions: TLC re-evaluates an action-level LET at every use)
NewStep(s1) ==
    /\ SeqSet(Rec.nz)  = { <<o, Read(s1, o)>> : o \in { x \in Pure : Read(s1, x) # 0 } }
    /\ SeqSet(Rec.hnz) = { <<id, s1[HidKey[id]]>> : id \in { x \in HidIds : s1[HidKey[x]] # 0 } }
    /\ regs' = s1 /\ ln' = ln + 1 /\ frame' = TRUE /\ rdb' = ReadAll(s1)
\* a new object: constructor values everywhere, ICU vector tables (logged as found) included
TNew ==
    /\ IsEvent("New")
    /\ \A i \in 1..3, j \in 1..16 : Rec.iv[i][j] = 0
    /\ NewStep(Fresh)

TReset == IsEvent("Reset") /\ Go(ResetEffect(regs), \h800, TRUE)

StepW(w) ==
    /\ w.off = Rec.o
    /\ w.out = Rec.out
    /\ Go(w.s, w.off, IF w.off = \h800 THEN ObsChanged = {} ELSE WriteFrame(w.off, Rec.v, Rec.out))
TW == IsEvent("W") /\ StepW(AccessWrite(regs, Rec.p, Rec.a, Rec.v))

StepR(r) ==
    /\ r.off = Rec.o
    /\ r.out = Rec.out
    /\ r.r   = Rec.r
    /\ Go(r.s, r.off, ReadFrame(r.off))
TR == IsEvent("R") /\ (Rec.p = "g" => InWindow(regs, Rec.a)) /\ StepR(AccessRead(regs, Rec.p, Rec.a))

\* the host side of the mailbox: may change the DSP-side status words and raise IRQ 14
HostFrame == ObsChanged \subseteq { \hC2, \hC6, \hCA, \hD2, \hD6, \hD8, \h200 }
THSend    == IsEvent("HSend")    /\ Go(HostSend(regs, Rec.i, Rec.v), \h800, HostFrame)
THRecv    == IsEvent("HRecv")    /\ Rec.r = regs[FD(Dn("data", Rec.i))] /\ Go(HostRecv(regs, Rec.i), \h800, HostFrame)
THSetSem  == IsEvent("HSetSem")  /\ Go(HostSetSem(regs, Rec.v), \h800, HostFrame)
THClrSem  == IsEvent("HClrSem")  /\ Go(HostClrSem(regs, Rec.v), \h800, ObsChanged \subseteq { \hCC })
THMaskSem == IsEvent("HMaskSem") /\ Go(HostMaskSem(regs, Rec.v), \h800, ObsChanged = {})
THGetSem  == IsEvent("HGetSem")  /\ Rec.r = regs[FD("sem")] /\ Go(regs, \h800, ObsChanged = {})

TraceInit == regs = Fresh /\ ln = 1 /\ frame = TRUE /\ rdb = ReadAll(Fresh)
TraceNext == TNew \/ TReset \/ TW \/ TR \/ THSend \/ THRecv \/ THSetSem \/ THClrSem \/ THMaskSem \/ THGetSem
TraceSpec == TraceInit /\ [][TraceNext]_tvars

\* one successor per line: the line number identifies the state (saves fingerprinting the register file)
TraceView == <<ln, frame>>

\* C12 on the observed execution: every change an access made is one the property allows
ObservedFrame == frame

TraceAccepted ==
    /\ PrintT(<<"TRACE_MATCHED", TLCGet("stats").diameter - 1, Len(Log)>>)
    /\ TLCGet("stats").diameter - 1 = Len(Log)
=============================================================================
