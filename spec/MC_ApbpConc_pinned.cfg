\* the pinned code: DataChannel::SetDisableInterrupt writes without the channel mutex (defect D7), the
\* vector registers are plain stores.  TLC must find the lockset counterexample.
CONSTANTS
  Chans = {0}
  SemFull = 3
  FixedDisableIrqLock = FALSE
  FixedVectorLock = TRUE
  HandlerInsideLock = FALSE
  VectoredOn = FALSE
  NSend = 1
  NHostOps = 0
  SemVals = {1}
  NDis = 1
  NVec = 0
  NCbSend = 0
  TrackLockset = TRUE
SPECIFICATION Spec
INVARIANTS ValuesOK LocksetOK
CHECK_DEADLOCK TRUE
