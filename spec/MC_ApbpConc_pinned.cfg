\* the code as first pinned (before fix 2b7c59d): DataChannel::SetDisableInterrupt writes without the channel
\* mutex (defect D7).  TLC must find the lockset counterexample -- keeps the model honest about what the
\* repair bought.
CONSTANTS
  Chans = {0}
  SemFull = 3
  FixedDisableIrqLock = FALSE
  FixedVectorLock = TRUE
  HandlerInsideLock = FALSE
  VectoredOn = FALSE
  NSend = 1
  NHostOps = 0
  SemVals = {1}
  NDis = 1
  NVec = 0
  NCbSend = 0
  HostKinds = {"Empty", "PollRecv", "SemSet", "SemGet", "SemClr", "SemMask"}
  NDspMask = 0
  TrackLockset = TRUE
SPECIFICATION Spec
INVARIANTS ValuesOK LocksetOK
CHECK_DEADLOCK TRUE
