----------------------------- MODULE Dsp1Trace -----------------------------
(* C05 conformance, firmware tools: tools/dsp1_rec.py writes random firmware sources (every kind of line,   *)
(* lexical noise), runs the repository's own makedsp1 and dsp1_reader built from the working tree, and logs *)
(* per source: the item list it wrote, makedsp1's exit status / message, the produced file taken apart      *)
(* structurally (header fields, descriptors, data words, bytes that belong to nothing), the reader's         *)
(* summary and listing.  Every record must be what Dsp1.tla says.  The SHA-256 field is compared with an    *)
(* independent digest of the same bytes computed by the recorder (a hash function is not TLC's business).   *)
EXTENDS Dsp1, Json, IOUtils

Log == ndJsonDeserialize(IOEnv.TRACE)
VARIABLE vL
Rec == Log[vL]

DescOk(d, e) == /\ d.off = e.off /\ d.target = e.target /\ d.size = e.size /\ d.ty = e.ty /\ d.pad = 0
                /\ d.words = e.words /\ d.sha = d.sharef

\* one printed listing line against the specification's entry and the source item it came from
LineOk(l, e, it) == /\ l.a = e.a /\ l.w = e.w /\ l.x = e.x
                    /\ e.x # -1 => l.xa = e.a + 1
                    /\ it.k = "ins" => l.txt = it.txt          \* the binary prints as the line that produced it

SegListOk(pl, seg, items) ==
    LET L == Listing(seg) IN
    /\ pl.kind = (IF seg.ty = 2 THEN 2 ELSE 0)
    /\ Len(pl.lines) = Len(L)
    /\ IF seg.ty = 2 THEN \A p \in 1..Len(L) : pl.lines[p].a = L[p].a /\ pl.lines[p].w = L[p].w /\ pl.lines[p].x = -1
       ELSE /\ Len(items) = Len(L)                                \* generator contract (PlainData), re-checked here
            /\ \A p \in 1..Len(L) : LineOk(pl.lines[p], L[p], items[p])

Dsp1Ok(r) ==
    LET src == r.src
        a   == Assemble(src) IN
    /\ WellFormed(src)
    /\ r.rc = a.rc /\ r.err = a.err /\ r.errln = a.ln
    /\ a.rc = 0 =>
        LET c == Container(a.segs)  n == Len(a.segs) IN
        /\ r.file.len = FileLen(a.segs) /\ r.file.magic = c.magic /\ r.file.bsize = c.bsize
        /\ r.file.layout = c.layout /\ r.file.nseg = c.misc /\ r.file.miscrest = 0 /\ r.file.stray = 0
        /\ Len(r.file.desc) = n
        /\ \A i \in 1..n : DescOk(r.file.desc[i], c.desc[i])
        /\ r.rd.rc = 0 /\ r.rd.layout = 65535 /\ r.rd.nseg = n /\ r.rd.flags = 0
        /\ Len(r.rd.segs) = n /\ Len(r.rd.list) = n
        /\ \A i \in 1..n : /\ r.rd.segs[i].ty = a.segs[i].ty /\ r.rd.segs[i].target = a.segs[i].target
                           /\ r.rd.segs[i].size = 2 * Len(a.segs[i].words)
                           /\ SegListOk(r.rd.list[i], a.segs[i], SegItems(src, 1, i, 0))
        /\ RoundTrip(src) /\ NoOverlap(src) /\ StreamBack(src)

TraceInit == vL = 1
TraceNext == vL <= Len(Log) /\ Dsp1Ok(Rec) /\ vL' = vL + 1
TraceSpec == TraceInit /\ [][TraceNext]_vL
TraceAccepted == /\ PrintT(<<"TRACE_MATCHED", TLCGet("stats").diameter - 1, Len(Log)>>)
                 /\ TLCGet("stats").diameter - 1 = Len(Log)
=============================================================================
